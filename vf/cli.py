"""In-process invocation of the real CLI entry point gaftools.__main__.main(argv) with
outcome classification:  ok | reported | usage | internal_error | nontermination."""

import atexit
import collections
import hashlib
import io
import logging
import os
import pickle
import shutil
import sys
import tempfile
import time
import traceback
import warnings

from vf.util import put_repo_on_path, REPO

put_repo_on_path()
warnings.filterwarnings("ignore", category=DeprecationWarning)


class NonTermination(BaseException):
    """Raised by a step-budget probe; BaseException so that no `except Exception` in the code
    under test can swallow it."""


class Outcome:
    __slots__ = ("kind", "exit_code", "message", "exc_type", "exc_where", "log", "stdout", "tb")

    def __init__(self, kind, exit_code=None, message="", exc_type=None, exc_where=None, log=None,
                 stdout="", tb=""):
        self.kind = kind
        self.exit_code = exit_code
        self.message = message
        self.exc_type = exc_type
        self.exc_where = exc_where
        self.log = log or []
        self.stdout = stdout
        self.tb = tb

    @property
    def ok(self):
        return self.kind == "ok"

    def brief(self):
        if self.kind == "ok":
            return "ok"
        if self.kind == "internal_error":
            return f"internal_error({self.exc_type}@{self.exc_where}: {self.message[:160]})"
        return f"{self.kind}(exit={self.exit_code}: {self.message[:160]})"

    def to_json(self):
        return {"kind": self.kind, "exit": self.exit_code, "message": self.message[:400],
                "exc": self.exc_type, "where": self.exc_where}


class _Capture(io.StringIO):
    """stdout capture that survives the code under test closing sys.stdout (sort does)"""

    def close(self):
        pass


class _ListHandler(logging.Handler):
    def __init__(self):
        super().__init__(level=logging.DEBUG)
        self.records = []

    def emit(self, record):
        try:
            msg = record.getMessage()
        except Exception:  # a broken logging format string inside the code under test
            msg = f"<unformattable log record {record.msg!r} % {record.args!r}>"
        self.records.append((record.levelname, msg))


def _where(tb):
    """Innermost frame that belongs to the code under test."""
    best = None
    for fs in traceback.extract_tb(tb):
        if "/gaftools/" in fs.filename:
            best = fs
    if best is None:
        frames = traceback.extract_tb(tb)
        best = frames[-1] if frames else None
    if best is None:
        return "?"
    fn = best.filename.split("/gaftools/")[-1]
    return f"{fn}:{best.name}"


STALE = collections.Counter()
_SHM_TMP = None
_CASE = {"key": "", "n": 0}


def begin_case(prop, seed, index):
    """the environment decisions of run_cli (stale outputs, cwd, --debug, TMPDIR, tty) are drawn per case
    and per call from (property, seed, case index, call number): reproducible in a replay of the case"""
    _CASE["key"], _CASE["n"] = f"{prop}:{seed}:{index}", 0


def _draw(label, argv):
    key = label + "," + _CASE["key"] + "," + str(_CASE["n"]) + "," + ",".join(os.path.basename(a) for a in argv)
    return int(hashlib.sha1(key.encode()).hexdigest()[:6], 16)

_STALE_GAF = "".join(f"stale{i}\t9\t0\t9\t+\t>zz{i}\t9\t0\t9\t9\t9\t60\tNM:i:0\n" for i in range(3))


_STALE_STAT = ("Total alignments: 977\n\tPrimary: 970\n\tSecondary: 7\nReads with at least one alignment: 961\n"
               "Total aligned bases: 123456\nAverage mapping quality: 59.1\nAverage highest sequence identity: 0.5\n"
               "Average highest map ratio: 0.5\nTotal deletion regions: 11 (1 >50bps)\nTotal insertion regions: 12 (1 >50bps)\n"
               "Total substitution regions: 13 (1 >50bps)\nTotal match regions: 14 (1 >50bps)\nTotal perfect alignments (exact match): 3\n")


def plant_stale_outputs(argv):
    """A re-used output path is ordinary use (pipelines overwrite yesterday's files): in a
    deterministic quarter of the runs the files a command is about to write already exist, with
    plausible content of an earlier run and a modification time newer than the inputs."""
    argv = [str(a) for a in argv]
    if _draw("stale", argv) % 4 != 0:
        return
    targets = []
    for i, a in enumerate(argv[:-1]):
        if a in ("-o", "--output", "--outgaf", "--outind"):
            targets.append((argv[i + 1], "index" if (a == "--outind" or argv[0] == "index") else "text"))
    pos = [a for i, a in enumerate(argv[1:], 1) if not a.startswith("-") and argv[i - 1] not in
           ("-o", "--output", "--outgaf", "--outind", "-g", "--gfa", "-f", "--format", "-n", "--node", "-r", "--region", "-i", "--index", "-c", "--cores")]
    if argv[0] == "index" and not any(a in ("-o", "--output") for a in argv) and pos:
        targets.append((pos[0] + ".gvi", "index"))
    if argv[0] == "sort" and "--outgaf" in argv and "--outind" not in argv:
        targets.append((argv[argv.index("--outgaf") + 1] + ".gsi", "index"))
    for path, kind in targets:
        if os.path.exists(path) or not os.path.isdir(os.path.dirname(path) or "."):
            continue
        if kind == "index":
            with open(path, "wb") as f:
                pickle.dump({("zz0", "chrStale", 0, 9): [0, 5], "chrStale": [0, 5], "ref_contig": ["chrStale"]}, f)
        elif argv[0] == "stat":
            with open(path, "w") as f:
                f.write(_STALE_STAT)
        elif argv[0] == "find_path":
            with open(path, "w") as f:
                f.write(">seq_>zz0\nACGTACGT\nTTTT\n")
        else:
            with open(path, "w") as f:
                f.write(_STALE_GAF)
        t = time.time() + 2
        os.utime(path, (t, t))
        STALE[argv[0]] += 1


def relativize(argv):
    """In a deterministic fifth of the runs the command is started from the directory of its first
    file argument with that directory's files named relatively (as users do), otherwise with the
    absolute paths the harness built."""
    argv = [str(a) for a in argv]
    if _draw("cwd", argv) % 5 != 0 or any("/../" in a for a in argv):
        return argv, None  # (names with '..' are passed as they are: shortening them lexically would name another file)
    base = next((os.path.dirname(a) for a in argv[1:] if os.path.isabs(a) and os.path.isfile(a)), None)
    if base is None:
        return argv, None
    out = []
    for a in argv:
        if os.path.isabs(a) and (a == base or a.startswith(base + os.sep)):
            out.append(os.path.relpath(a, base))
        else:
            out.append(a)
    old = os.getcwd()
    os.chdir(base)
    STALE["relative_path_runs"] += 1
    return out, old


def run_cli(argv, capture_stdout=True, stale=True, tty_stderr=None, closed_stderr=None):
    import gaftools.__main__ as gm

    _CASE["n"] += 1
    if stale:
        plant_stale_outputs(argv)
    argv, old_cwd = relativize(argv)
    hdraw = _draw("env", argv)
    if hdraw % 10 == 0:
        # the global --debug switch only changes what is logged
        argv = ["--debug"] + argv
        STALE["debug_flag_runs"] += 1
    old_tmp = tempfile.tempdir
    if hdraw % 7 == 0 and os.path.isdir("/dev/shm"):
        # temporary files on another file system than the inputs and outputs (TMPDIR on tmpfs)
        global _SHM_TMP
        if _SHM_TMP is None:
            try:
                _SHM_TMP = tempfile.mkdtemp(prefix=f"vf-tmp-{os.getpid()}-", dir="/dev/shm")
                atexit.register(shutil.rmtree, _SHM_TMP, True)
            except OSError:
                _SHM_TMP = False  # not available here: this dimension is simply not varied
        if _SHM_TMP:
            tempfile.tempdir = _SHM_TMP
            STALE["tmpdir_on_other_filesystem_runs"] += 1

    root = logging.getLogger()
    old_handlers = list(root.handlers)
    old_level = root.level
    for h in old_handlers:
        root.removeHandler(h)
    lh = _ListHandler()
    root.addHandler(lh)
    old_out, old_err = sys.stdout, sys.stderr
    # the caller's standard input holds data that is none of the command's business (a shell loop
    # `while read f; do gaftools ...; done < list`): plausible GFA / GAF lines, must never show up anywhere
    old_in = sys.stdin
    sys.stdin = io.StringIO("S\tstdin_ghost\tACGT\tLN:i:4\tSN:Z:chrGhost\tSO:i:0\tSR:i:0\n"
                            "L\tstdin_ghost\t+\tstdin_ghost\t+\t0M\n"
                            "stdin_ghost_read\t5\t0\t5\t+\t>stdin_ghost\t4\t0\t4\t4\t4\t60\n")
    out = _Capture()
    err = io.StringIO()
    if tty_stderr is None:
        tty_stderr = hdraw % 9 == 0
    if tty_stderr:
        # interactive use: standard error is a terminal (standard output still is a file or a pipe)
        err.isatty = lambda: True
        STALE["stderr_is_a_terminal_runs"] += 1
    if closed_stderr is None:
        closed_stderr = not tty_stderr and hdraw % 11 == 0
    if capture_stdout:
        sys.stdout = out
    sys.stderr = err
    if closed_stderr:
        # started with file descriptor 2 closed (`2>&-`, some daemon / cron wrappers): the interpreter
        # then has sys.stderr = None; logging and argparse cope with that, print(file=None) means stdout
        sys.stderr = None
        STALE["stderr_closed_runs"] += 1
    try:
        try:
            rv = gm.main([str(a) for a in argv])
            # the installed command is the console-script launcher `sys.exit(main())`: whatever main()
            # returns becomes the exit status (None -> 0, an int -> that status, anything else -> 1)
            if rv is None or rv == 0:
                res = Outcome("ok", 0)
            else:
                errs = [m for lv, m in lh.records if lv in ("ERROR", "CRITICAL")]
                res = Outcome("reported", rv if isinstance(rv, int) else 1,
                              f"main() returned {rv!r} (exit status of the installed command)" + (": " + errs[-1] if errs else ""))
        except SystemExit as e:
            code = e.code
            if code is None or code == 0:
                res = Outcome("ok", 0)
            elif code == 2 and ("usage:" in err.getvalue() or (closed_stderr and not any(lv in ("ERROR", "CRITICAL") for lv, _m in lh.records))):
                res = Outcome("usage", 2, err.getvalue()[-300:])
            else:
                errs = [m for lv, m in lh.records if lv in ("ERROR", "CRITICAL")]
                msg = errs[-1] if errs else (code if isinstance(code, str) else "")
                res = Outcome("reported", code if isinstance(code, int) else 1, str(msg))
        except NonTermination as e:
            res = Outcome("nontermination", None, str(e))
        except BaseException as e:  # noqa: BLE001 - everything else is an internal error
            if isinstance(e, KeyboardInterrupt):
                raise
            tbs = traceback.format_exc()
            res = Outcome("internal_error", None, str(e)[:400], type(e).__name__,
                          _where(e.__traceback__), tb=tbs[-1500:])
    finally:
        sys.stdout, sys.stderr = old_out, old_err
        sys.stdin = old_in
        if old_cwd is not None:
            os.chdir(old_cwd)
        tempfile.tempdir = old_tmp
        for h in list(root.handlers):
            root.removeHandler(h)
        for h in old_handlers:
            root.addHandler(h)
        root.setLevel(old_level)
    res.log = lh.records
    res.stdout = out.getvalue()
    return res
