"""In-process invocation of the real CLI entry point gaftools.__main__.main(argv) with
outcome classification:  ok | reported | usage | internal_error | nontermination."""

import io
import logging
import sys
import traceback
import warnings

from vf.util import put_repo_on_path, REPO

put_repo_on_path()
warnings.filterwarnings("ignore", category=DeprecationWarning)


class NonTermination(BaseException):
    """Raised by a step-budget probe; BaseException so that no `except Exception` in the code
    under test can swallow it."""


class Outcome:
    __slots__ = ("kind", "exit_code", "message", "exc_type", "exc_where", "log", "stdout", "tb")

    def __init__(self, kind, exit_code=None, message="", exc_type=None, exc_where=None, log=None,
                 stdout="", tb=""):
        self.kind = kind
        self.exit_code = exit_code
        self.message = message
        self.exc_type = exc_type
        self.exc_where = exc_where
        self.log = log or []
        self.stdout = stdout
        self.tb = tb

    @property
    def ok(self):
        return self.kind == "ok"

    def brief(self):
        if self.kind == "ok":
            return "ok"
        if self.kind == "internal_error":
            return f"internal_error({self.exc_type}@{self.exc_where}: {self.message[:160]})"
        return f"{self.kind}(exit={self.exit_code}: {self.message[:160]})"

    def to_json(self):
        return {"kind": self.kind, "exit": self.exit_code, "message": self.message[:400],
                "exc": self.exc_type, "where": self.exc_where}


class _Capture(io.StringIO):
    """stdout capture that survives the code under test closing sys.stdout (sort does)"""

    def close(self):
        pass


class _ListHandler(logging.Handler):
    def __init__(self):
        super().__init__(level=logging.DEBUG)
        self.records = []

    def emit(self, record):
        try:
            msg = record.getMessage()
        except Exception:  # a broken logging format string inside the code under test
            msg = f"<unformattable log record {record.msg!r} % {record.args!r}>"
        self.records.append((record.levelname, msg))


def _where(tb):
    """Innermost frame that belongs to the code under test."""
    best = None
    for fs in traceback.extract_tb(tb):
        if "/gaftools/" in fs.filename:
            best = fs
    if best is None:
        frames = traceback.extract_tb(tb)
        best = frames[-1] if frames else None
    if best is None:
        return "?"
    fn = best.filename.split("/gaftools/")[-1]
    return f"{fn}:{best.name}"


def run_cli(argv, capture_stdout=True):
    import gaftools.__main__ as gm

    root = logging.getLogger()
    old_handlers = list(root.handlers)
    old_level = root.level
    for h in old_handlers:
        root.removeHandler(h)
    lh = _ListHandler()
    root.addHandler(lh)
    old_out, old_err = sys.stdout, sys.stderr
    out = _Capture()
    err = io.StringIO()
    if capture_stdout:
        sys.stdout = out
    sys.stderr = err
    try:
        try:
            gm.main([str(a) for a in argv])
            res = Outcome("ok", 0)
        except SystemExit as e:
            code = e.code
            if code is None or code == 0:
                res = Outcome("ok", 0)
            elif code == 2 and "usage:" in err.getvalue():
                res = Outcome("usage", 2, err.getvalue()[-300:])
            else:
                errs = [m for lv, m in lh.records if lv in ("ERROR", "CRITICAL")]
                msg = errs[-1] if errs else (code if isinstance(code, str) else "")
                res = Outcome("reported", code if isinstance(code, int) else 1, str(msg))
        except NonTermination as e:
            res = Outcome("nontermination", None, str(e))
        except BaseException as e:  # noqa: BLE001 - everything else is an internal error
            if isinstance(e, KeyboardInterrupt):
                raise
            tbs = traceback.format_exc()
            res = Outcome("internal_error", None, str(e)[:400], type(e).__name__,
                          _where(e.__traceback__), tb=tbs[-1500:])
    finally:
        sys.stdout, sys.stderr = old_out, old_err
        for h in list(root.handlers):
            root.removeHandler(h)
        for h in old_handlers:
            root.addHandler(h)
        root.setLevel(old_level)
    res.log = lh.records
    res.stdout = out.getvalue()
    return res
