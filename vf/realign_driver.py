"""Driver subprocess for C11/C13: runs the real `gaftools realign` (gaftools.__main__.main) with
process tracing, delay plans, forced interleaving windows and fault injection attached from the
outside by rebinding module globals of gaftools.cli.realign (wfa_alignment, mp, one_is_alive,
all_exited) — the repository itself only carries the guarded batch-size hook.

    python -B -m vf.realign_driver SPEC.json RESULT.json

Every process appends JSON lines {pid, role, ev, t=monotonic_ns, ...} to its own file in LOGDIR
(no shared monitor state). CLOCK_MONOTONIC is system wide, so the merged order of non-overlapping
events is meaningful. Call events are written before invoking, return events after the reply.
"""

import faulthandler
import functools
import json
import os
import queue as pyqueue
import signal
import sys
import time

from vf.util import put_repo_on_path

put_repo_on_path()

LOGDIR = None
ROLE = "parent"
_logf = None
_logpid = None


def log(ev, **kw):
    global _logf, _logpid
    pid = os.getpid()
    if _logf is None or _logpid != pid:
        _logf = open(os.path.join(LOGDIR, f"{pid}.jsonl"), "a", buffering=1)
        _logpid = pid
    kw.update(pid=pid, role=ROLE, ev=ev, t=time.monotonic_ns())
    _logf.write(json.dumps(kw) + "\n")


class State:
    fresh = False  # a successful get happened since the last processed item
    got_any = False
    queues = 0
    last_empty = False
    last_alive = None
    processes = None
    window_done = set()
    window_armed = set()
    empties_after_all_dead = 0
    stale = 0
    created = 0  # Process objects created so far (= number of the next worker)
    group_procs = {}  # queue (batch group) number -> Process objects created for it
    obs = 0  # looks of the parent at the victim's state so far (fault point after_observation)
    obs_fired = False


def item_id(obj):
    if obj is None:
        return "sentinel"
    pr = getattr(obj, "priority", None)
    if isinstance(pr, int):
        return pr
    import hashlib
    return "h" + hashlib.sha1(repr(obj).encode()).hexdigest()[:12]  # the message type is gaftools' own business


def install(plan):
    import multiprocessing as mp
    import multiprocessing.queues as mpq
    import gaftools.cli.realign as R
    from vf import monitor as M
    from vf.cli import NonTermination

    scale = float(plan.get("timeout_scale", 1.0))
    batch = int(os.environ.get("GAFTOOLS_VERIF_REALIGN_BATCH", "1000"))
    cores = int(plan["cores"])
    forced = plan.get("forced")  # {"groups": [g,...] | "all", "hold": k}
    wdelay = plan.get("worker_delays", {})  # "w:point" -> seconds
    pdelay = plan.get("parent_delays", {})  # "before_alive:n" / "before_get:n" -> seconds
    # faults: [{"worker": w, "point": "before_put_k"|"before_sentinel"|"after_sentinel"|..., "kind": ...}, ...]
    faults = plan.get("faults") or ([plan["fault"]] if plan.get("fault") else [])
    ctxmp = mp.get_context()
    events = {}
    if forced:
        for g in range(int(plan.get("max_groups", 64))):
            events[g] = ctxmp.Event()

    def forced_for(group):
        if not forced:
            return False
        return forced["groups"] == "all" or group in forced["groups"]

    # ---- queue seen by the parent --------------------------------------------------------------
    def raw_alive(p):  # the harness's own looks at a worker do not count as observations of the parent
        return ctxmp.Process.is_alive(p)

    def raw_exit(p):
        return ctxmp.Process.exitcode.fget(p)

    class VQueue(mpq.Queue):
        def __init__(self, *a, **k):
            super().__init__(*a, ctx=ctxmp, **k)
            self._vf_group = State.queues
            State.queues += 1
            self._vf_gets = 0
            # a new queue starts a new batch group: the liveness bookkeeping of the previous group is void
            State.processes = None
            State.empties_after_all_dead = 0

        def get(self, block=True, timeout=None):
            g = self._vf_group
            self._vf_gets += 1
            d = pdelay.get(f"before_get:{self._vf_gets}") or pdelay.get("before_every_get")
            if d:
                time.sleep(d)
            log("get_call", group=g)
            try:
                obj = super().get(block, None if timeout is None else timeout * scale)
            except pyqueue.Empty:
                log("get_empty", group=g)
                State.last_empty = True
                procs = State.group_procs.get(g, [])
                if forced_for(g) and g not in State.window_done:
                    # "timed out, about to look at the workers": the held workers finish exactly now, i.e.
                    # between the time-out and whatever liveness check gaftools performs next
                    State.window_armed.add(g)
                    events[g].set()
                    for p in procs:
                        if p.pid is not None:
                            p.join(timeout=15)
                    State.window_done.add(g)
                    log("window_forced", group=g, all_dead=not any(raw_alive(p) for p in procs))
                if procs and all(p.pid is not None and raw_exit(p) == 0 for p in procs):
                    # every worker of the group has exited cleanly at a time-out: results may still be queued
                    log("window_reached", group=g)
                State.processes = procs or State.processes
                if State.processes is not None and not any(raw_alive(p) for p in State.processes):
                    State.empties_after_all_dead += 1
                    if State.empties_after_all_dead > 25:
                        raise NonTermination("parent still polling the queue 25 time-outs after the last worker died")
                raise
            log("get_ok", group=g, id=item_id(obj))
            State.fresh = True
            State.last_empty = False
            State.empties_after_all_dead = 0  # progress: only *consecutive* fruitless time-outs count
            return obj

    # ---- processes seen by the parent: every look at a worker's state is an observation ------------
    obs_fault = next((f for f in faults if f.get("point") == "after_observation"), None)

    def observe(proc):
        """fault point 'after_observation': the victim is killed right after the parent's n-th look
        at its state (exit code / liveness), i.e. between two consecutive looks of the parent"""
        if obs_fault is None or State.obs_fired or getattr(proc, "_vf_idx", None) != obs_fault["worker"]:
            return
        if proc.pid is None or proc._popen is None or proc._popen.returncode is not None:
            return
        State.obs += 1
        if State.obs == int(obs_fault["n"]):
            State.obs_fired = True
            log("fault_fire", kind=obs_fault["kind"], observation=State.obs)
            try:
                os.kill(proc.pid, getattr(signal, obs_fault["kind"]))
                os.waitid(os.P_PID, proc.pid, os.WEXITED | os.WNOWAIT)  # dead, not yet reaped by the parent
            except (OSError, ChildProcessError):
                pass

    class TProcess(ctxmp.Process):
        @property
        def exitcode(self):
            v = ctxmp.Process.exitcode.fget(self)
            observe(self)
            return v

        def is_alive(self):
            v = ctxmp.Process.is_alive(self)
            observe(self)
            return v

    class _MPShim:
        """stands in for the `mp` name inside gaftools.cli.realign: Process / Queue are the traced
        ones, every other name (current_process, cpu_count, ...) is multiprocessing's own"""
        @staticmethod
        def Process(*a, **k):
            # whatever function gaftools runs in a worker, and however it is called: the worker is
            # entered through worker_entry, which numbers it by creation order and hands it a
            # traced proxy in place of the result queue
            idx = State.created
            State.created += 1
            tgt, args = k.get("target"), tuple(k.get("args", ()))
            if tgt is not None and any(isinstance(x, VQueue) for x in args):
                if tgt is wfa_wrapper:
                    tgt = orig_wfa
                k["target"], k["args"] = worker_entry, (idx, tgt, args)
            proc = TProcess(*a, **k)
            proc._vf_idx = idx
            State.group_procs.setdefault(State.queues - 1, []).append(proc)
            return proc

        @staticmethod
        def Queue(*a, **k):
            return VQueue(*a, **k)

        def __getattr__(self, name):
            if name == "active_children":
                def active_children():
                    r = mp.active_children()
                    for procs in State.group_procs.values():
                        for q in procs:
                            observe(q)
                    return r
                return active_children
            if name == "cpu_count" and plan.get("cpu_count"):
                # the host's CPU count is part of the environment (realign clamps --cores with it)
                return lambda: int(plan["cpu_count"])
            return getattr(mp, name)

    MPShim = _MPShim()

    # ---- worker side -----------------------------------------------------------------------------
    orig_wfa = getattr(R, "wfa_alignment", None)

    def worker_entry(w, target, args):
        global ROLE
        ROLE = "worker"
        qu = next(x for x in args if isinstance(x, VQueue))
        sized = [x for x in args if isinstance(x, (list, tuple))]
        n = len(sized[0]) if sized else 0
        log("worker_start", w=w, first=None, n=n)
        proxy = QProxy(qu, w, n)
        in_aligner = [f for f in faults if f["worker"] == w and f["point"].startswith("in_aligner_")]
        if in_aligner:
            # fault point inside the alignment itself: the k-th aligner call of this worker raises (what
            # pywfa does for an empty pattern, what an allocation failure looks like)
            orig_aligner = getattr(R, "WavefrontAligner", None)
            if orig_aligner is None:
                log("hook_missing", name="WavefrontAligner")
            else:
                calls = [0]

                class FaultyAligner:
                    def __init__(self, *a, **k):
                        self._real = orig_aligner(*a, **k)

                    def __call__(self, *a, **k):
                        k_call = calls[0]
                        calls[0] += 1
                        for f in in_aligner:
                            if f["point"] == f"in_aligner_{k_call}":
                                die(f["kind"], qu)
                        return self._real(*a, **k)

                    def __getattr__(self, name):
                        return getattr(self._real, name)

                R.WavefrontAligner = FaultyAligner
        target(*[proxy if x is qu else x for x in args])
        for fault in faults:
            if fault["worker"] == w and fault["point"] == "after_sentinel":
                die(fault["kind"], qu)
        d = wdelay.get(f"{w}:before_exit") or wdelay.get("*:before_exit")
        if d:
            time.sleep(d)
        log("worker_done", w=w)

    def die(kind, qu):
        log("fault_fire", kind=kind)
        if _logf:
            _logf.flush()
        if kind == "SIGKILL":
            os.kill(os.getpid(), signal.SIGKILL)
        elif kind == "SIGTERM":
            os.kill(os.getpid(), signal.SIGTERM)
        elif kind == "SIGSEGV":
            faulthandler.disable()
            os.kill(os.getpid(), signal.SIGSEGV)
        elif kind == "exit3":
            os._exit(3)
        elif kind == "exception":
            raise RuntimeError("injected worker failure")
        elif kind == "value_error":
            raise ValueError("pattern is None")
        elif kind == "memory_error":
            raise MemoryError()
        elif kind == "sys_exit_2":
            sys.exit(2)
        time.sleep(30)

    class QProxy:
        def __init__(self, qu, w, nitems):
            self.qu, self.w, self.n, self.nitems = qu, w, 0, nitems

        def put(self, obj):
            k = self.n
            self.n += 1
            point = "before_sentinel" if obj is None else f"before_put_{k}"
            d = wdelay.get(f"{self.w}:{point}") or wdelay.get(f"*:{point}")
            if d:
                time.sleep(d)
            group = self.w // cores
            if forced_for(group) and k >= self.nitems + 1 - forced["hold"]:
                log("hold_wait", w=self.w, k=k)
                events[group].wait(timeout=20)
            for fault in faults:
                if fault["worker"] == self.w and fault["point"] == point:
                    die(fault["kind"], self.qu)
                if fault["worker"] == self.w and fault["point"] == "holding_writer_lock" and obj is None:
                    # model of "killed between send_bytes and the release of the queue's writer lock"
                    self.qu._wlock.acquire()
                    die("SIGKILL", self.qu)
            log("put_call", w=self.w, id=item_id(obj))
            self.qu.put(obj)
            log("put_ret", w=self.w, id=item_id(obj))

    def wfa_wrapper(seq_batch, qu, _widx=None):
        global ROLE
        ROLE = "worker"
        # worker number = creation order of its Process (see _MPShim.Process); the layout of the batch
        # items is gaftools' own business
        first = seq_batch[0][3] if len(seq_batch[0]) > 3 and isinstance(seq_batch[0][3], int) else None
        w = _widx if _widx is not None else (first // batch if first is not None else 0)
        log("worker_start", w=w, first=first, n=len(seq_batch))
        # (only reached when gaftools calls its worker function directly, in the parent process)
        proxy = QProxy(qu, w, len(seq_batch))
        orig_wfa(seq_batch, proxy)
        for fault in faults:
            if fault["worker"] == w and fault["point"] == "after_sentinel":
                die(fault["kind"], qu)
        d = wdelay.get(f"{w}:before_exit") or wdelay.get("*:before_exit")
        if d:
            time.sleep(d)
        log("worker_done", w=w)

    # ---- liveness checks -------------------------------------------------------------------------
    # the liveness helpers are optional hook points (a refactoring may rename them): without them the
    # parent-side delay / forced-window plans lose a suspension point, the oracles do not depend on them
    orig_alive, orig_exited = getattr(R, "one_is_alive", None), getattr(R, "all_exited", None)
    nalive = [0]

    def one_is_alive_w(processes):
        State.processes = processes
        nalive[0] += 1
        d = pdelay.get(f"before_alive:{nalive[0]}") or pdelay.get("before_every_alive")
        if d:
            time.sleep(d)
        r = orig_alive(processes)
        State.last_alive = r
        log("one_is_alive", r=r)
        return r

    def all_exited_w(processes):
        r = orig_exited(processes)
        log("all_exited", r=r, codes=[raw_exit(p) for p in processes])
        return r

    if orig_wfa is not None:
        R.wfa_alignment = wfa_wrapper
    else:
        log("hook_missing", name="wfa_alignment")
    R.mp = MPShim
    if orig_alive is not None:
        R.one_is_alive = one_is_alive_w
    else:
        log("hook_missing", name="one_is_alive")
    if orig_exited is not None:
        R.all_exited = all_exited_w
    else:
        log("hook_missing", name="all_exited")

    # ---- local-state probe: trace specification (get_ok process)* -------------------------------
    def at_process(frame):
        obj = frame.f_locals.get("out_string_obj", "<unbound>")
        if not State.fresh:
            State.stale += 1
            log("stale_processed", id=item_id(obj) if obj != "<unbound>" else "<unbound>")
        else:
            log("process", id=item_id(obj))
        State.fresh = False

    a = M.PROBES.at_text(R.realign_gaf, "if out_string_obj is None", at_process, "process_line_0", 0)
    b = M.PROBES.at_text(R.realign_gaf, "if out_string_obj is None", at_process, "process_line_1", 1)
    return a and b


def main(argv):
    global LOGDIR
    spec = json.load(open(argv[0]))
    LOGDIR = spec["logdir"]
    os.makedirs(LOGDIR, exist_ok=True)
    stacks = open(os.path.join(LOGDIR, f"stacks.{os.getpid()}.txt"), "w")
    faulthandler.enable(file=stacks)
    faulthandler.register(signal.SIGUSR1, file=stacks, all_threads=True)
    from vf.cli import run_cli
    if spec["plan"].get("affinity"):
        # the CPUs this process may use (taskset / cpuset / container limit), inherited by the workers
        try:
            allowed = sorted(os.sched_getaffinity(0))
            os.sched_setaffinity(0, set(allowed[: max(1, int(spec["plan"]["affinity"]))]))
        except (AttributeError, OSError):
            pass
    probes_ok = install(spec["plan"])
    log("driver_start", argv=spec["argv"])
    o = run_cli(spec["argv"], closed_stderr=True if spec["plan"].get("stderr_closed") else None)
    log("driver_end", outcome=o.kind)
    if spec.get("stdout_file"):
        # the command was run without -o: what it wrote to standard output is its output file
        with open(spec["stdout_file"], "w") as f:
            f.write(o.stdout)
    res = {"outcome": o.to_json(), "tb": o.tb[-1500:], "probes_attached": bool(probes_ok), "stale": State.stale,
           "errors": [m for lv, m in o.log if lv == "ERROR"][-3:]}
    with open(argv[1], "w") as f:
        json.dump(res, f)
    # mirror the CLI exit status so that the supervisor sees the real process-level result
    code = 0 if o.kind == "ok" else (o.exit_code if isinstance(o.exit_code, int) and o.exit_code else 1)
    sys.stdout.flush()
    log("driver_exit", code=code)
    # leave the way the real command does (sys.exit -> interpreter shutdown -> multiprocessing's exit
    # handlers, which join queue feeder threads and child processes): a command that cannot get
    # through its own shutdown has not exited
    sys.exit(code)


if __name__ == "__main__":
    main(sys.argv[1:])
