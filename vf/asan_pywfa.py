"""Supporting, NON-GATING monitor for C12 (thorough tier): build the pywfa extension (its generated
align.c + the WFA2_lib C sources shipped in the wheel) with clang ASan+UBSan into a scratch
directory, run the real worker function gaftools.cli.realign.wfa_alignment over generated
read/path pairs under it, and count sanitizer report blocks whose stack is in WFA2_lib/align.c.
They are observations about a third-party library build that is not the shipped binary: the C12
verdict stays with the CIGAR-replay oracle (no property claims memory safety of pywfa)."""

import glob
import os
import re
import shutil
import subprocess
import sys
import sysconfig
import tempfile

from vf import util

WORKLOAD = r'''
import random, sys, queue
sys.path.insert(0, %(repo)r)
import pywfa
assert pywfa.__file__.startswith(%(build)r), pywfa.__file__
from gaftools.cli import realign
from gaftools.gaf import Alignment
r = random.Random(%(seed)d)
class Q:
    def __init__(self): self.items = []
    def put(self, x): self.items.append(x)
n = 0
for i in range(%(n)d):
    ref = "".join(r.choice("ACGT") for _ in range(r.choice([1, 5, 60, 400, 2500])))
    q = list(ref)
    for _ in range(r.randint(0, 25)):
        j = r.randrange(len(q) + 1)
        op = r.random()
        if op < 0.3 and q: q.pop(min(j, len(q) - 1))
        elif op < 0.6: q.insert(j, r.choice("ACGT"))
        elif q: q[min(j, len(q) - 1)] = r.choice("ACGT")
    if r.random() < 0.1: q = q[: len(q) // 3] + q[2 * len(q) // 3:]
    query = "".join(q) or "A"
    al = Alignment("r%%d" %% i, len(query), 0, len(query), "+", ">s1", len(ref), 0, len(ref), 0, 0, 60, True, "", tags={})
    qu = Q()
    realign.wfa_alignment([(al, ref, query, i)], qu)
    assert len(qu.items) == 2 and qu.items[1] is None
    n += 1
print("ALIGNED", n)
'''


def run(n=300, seed=0):
    pkg = None
    for p in sys.path + [os.path.join(sys.prefix, "lib", "python3.12", "site-packages")]:
        if os.path.exists(os.path.join(p, "pywfa", "align.c")):
            pkg = os.path.join(p, "pywfa")
            break
    if pkg is None or not shutil.which("clang"):
        return {"status": "unavailable", "reason": "pywfa sources or clang not found"}
    build = tempfile.mkdtemp(prefix="gaftools-vf-asan-")
    try:
        os.makedirs(os.path.join(build, "pywfa"))
        shutil.copy(os.path.join(pkg, "__init__.py"), os.path.join(build, "pywfa"))
        srcs = [os.path.join(pkg, "align.c")]
        for root, _d, files in os.walk(os.path.join(pkg, "WFA2_lib")):
            if any(x in root for x in ("/tools", "/examples", "/tests", "/build", "/scripts")):
                continue
            srcs += [os.path.join(root, f) for f in files if f.endswith(".c")]
        so = os.path.join(build, "pywfa", "align" + sysconfig.get_config_var("EXT_SUFFIX"))
        cmd = ["clang", "-O1", "-g", "-w", "-fsanitize=address,undefined", "-fno-sanitize=alignment", "-fPIC", "-shared",
               "-Wl,--allow-multiple-definition", f"-I{pkg}", f"-I{pkg}/WFA2_lib", f"-I{sysconfig.get_paths()['include']}"] + srcs + ["-o", so, "-lm"]
        b = subprocess.run(cmd, capture_output=True, text=True, timeout=900)
        if b.returncode != 0:
            return {"status": "unavailable", "reason": "build failed: " + b.stderr[-300:]}
        asan = subprocess.run(["clang", "-print-file-name=libclang_rt.asan-x86_64.so"], capture_output=True, text=True).stdout.strip()
        env = dict(os.environ, LD_PRELOAD=asan, PYTHONMALLOC="malloc", PYTHONPATH=build + os.pathsep + util.REPO,
                   ASAN_OPTIONS=f"detect_leaks=0:detect_odr_violation=0:halt_on_error=0:log_path={build}/asan.log",
                   UBSAN_OPTIONS=f"print_stacktrace=1:log_path={build}/ubsan.log")
        code = WORKLOAD % {"repo": util.REPO, "build": build, "seed": seed, "n": n}
        r = subprocess.run([util.PY, "-B", "-c", code], env=env, capture_output=True, text=True, timeout=1800)
        asan_blocks, ub_sites = 0, set()
        for fn in glob.glob(os.path.join(build, "asan.log*")):
            asan_blocks += open(fn, errors="replace").read().count("ERROR: AddressSanitizer")
        for fn in glob.glob(os.path.join(build, "ubsan.log*")):
            for m in re.finditer(r"(\S+?WFA2_lib/\S+?:\d+):\d+: runtime error: ([^\n]{0,80})", open(fn, errors="replace").read()):
                ub_sites.add((m.group(1).split("WFA2_lib/")[1], m.group(2).split(" 0x")[0][:60]))
        return {"status": "ran", "alignments": n, "workload_ok": "ALIGNED" in r.stdout, "rc": r.returncode,
                "asan_report_blocks": asan_blocks, "ubsan_distinct_sites": sorted(ub_sites)[:20],
                "note": "observations on an instrumented rebuild of the third-party aligner; not part of the C12 verdict"}
    finally:
        shutil.rmtree(build, ignore_errors=True)


if __name__ == "__main__":
    import json
    print(json.dumps(run(int(sys.argv[1]) if len(sys.argv) > 1 else 100), indent=1))
