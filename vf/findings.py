"""Known findings: committed file, never written at run time.  A finding is keyed by *mechanism*:
a named predicate over the violation's witness that is as narrow as the defect.  Only entries with
status "open" suppress anything; "fixed" entries are documentation and suppress nothing."""

import json
import os

from vf import util

PATH = os.path.join(util.VERIF, "known_findings.json")

CLASSIFIERS = {}


def classifier(fn):
    CLASSIFIERS[fn.__name__] = fn
    return fn


def load():
    if not os.path.exists(PATH):
        return {"findings": [], "fixed": []}
    with open(PATH) as f:
        return json.load(f)


def classify(prop, violations, known):
    new, hit = [], {}
    entries = [e for e in known.get("findings", []) if e["property"] == prop and e["status"] == "open"]
    for v in violations:
        matched = None
        for e in entries:
            fn = CLASSIFIERS.get(e["classifier"])
            try:
                if fn and fn(v, **e.get("params", {})):
                    matched = e
                    break
            except Exception:  # a classifier that cannot read the witness does not match
                continue
        if matched:
            h = hit.setdefault(matched["key"], {"what": matched["what"], "n": 0})
            h["n"] += 1
        else:
            new.append(v)
    return new, hit


# ------------------------------------------------------------------------------------------------
# classifiers (each as narrow as the mechanism it names)


@classifier
def repeated_tag_only(v):
    """C16/K2: the only difference between the input and the re-emitted optional fields is that
    later occurrences of a TAG:TYPE that occurs more than once in the input record are missing
    (the parser stores optional fields in a dict keyed by TAG:TYPE and keeps the first occurrence)."""
    w = v["witness"]
    if v["kind"] not in ("tags_differ", "parse_tags"):
        return False
    fin, fout = w["in_fields"], w["out_fields"]
    seen, expect = set(), []
    for f in fin:
        key = ":".join(f.split(":", 2)[:2])
        if key in seen:
            continue
        seen.add(key)
        expect.append(f)
    return expect == fout and len(expect) < len(fin)


@classifier
def realign_worker_killed_in_delivery(v):
    """C13/K1: the parent never exits because a worker died abruptly (no clean-up: SIGKILL, SIGSEGV,
    os._exit) while a result was partially written to the shared queue pipe: the structural
    diagnosis shows the parent blocked in read() on the queue pipe whose only remaining writer is
    the parent itself. Keyed by that structure, not by the input or the injected fault label."""
    w = v["witness"]
    d = w.get("diag") or {}
    return (v["kind"] == "hang_proven_deadlock" and d.get("proven_deadlock") is True
            and d.get("mechanism") == "partial_message_in_pipe"
            and w.get("fault_kind") in ("SIGKILL", "SIGSEGV", "SIGTERM", "exit3")
            # a single result record larger than PIPE_BUF: only then is a message of the unchanged
            # protocol (one record per message) written non-atomically and can be cut short
            and int(w.get("record_bytes") or 0) > 4096)
