"""One shard = one fresh interpreter running a slice of a property's cases under its monitors.

usage: python -B -m vf.shard PROP TIER SEED SHARD NSHARDS OUT.jsonl [--only INDEX] [--keep DIR]
"""

import faulthandler
import importlib
import json
import os
import shutil
import sys
import time
import traceback

from vf import util
from vf.util import put_repo_on_path

put_repo_on_path()
from vf import monitor  # noqa: E402


class Ctx:
    def __init__(self, prop, tier, seed, shard, nshards, keep_dir):
        self.prop = prop
        self.tier = tier
        self.seed = seed
        self.shard = shard
        self.nshards = nshards
        self.scratch = util.Scratch()
        self.keep_dir = keep_dir
        self.kept = 0
        self.hashseed = os.environ.get("PYTHONHASHSEED", "random")

    def tmp(self):
        return self.scratch.sub()

    def drop(self, d):
        self.scratch.drop(d)

    def keep(self, index, casedir, info):
        """Copy a violating case's inputs into a replay bundle (a few KB)."""
        if self.kept >= 12 or not self.keep_dir:
            return None
        self.kept += 1
        dst = os.path.join(self.keep_dir, f"s{self.seed}-i{index}-{self.kept}")
        os.makedirs(dst, exist_ok=True)
        if casedir and os.path.isdir(casedir):
            n = 0
            for fn in sorted(os.listdir(casedir)):
                p = os.path.join(casedir, fn)
                if os.path.isfile(p) and os.path.getsize(p) < 2_000_000 and n < 40:
                    shutil.copy(p, os.path.join(dst, fn))
                    n += 1
        with open(os.path.join(dst, "case.json"), "w") as f:
            json.dump(info, f, indent=1, default=str)
        return dst


def main(argv):
    prop, tier, seed, shard, nshards, out = argv[:6]
    seed, shard, nshards = int(seed), int(shard), int(nshards)
    only = None
    keep_dir = os.path.join(util.VERIF, "replays", prop)
    rest = argv[6:]
    while rest:
        if rest[0] == "--only":
            only = int(rest[1])
            rest = rest[2:]
        elif rest[0] == "--keep":
            keep_dir = rest[1]
            rest = rest[2:]
        else:
            rest = rest[1:]
    faulthandler.enable()
    P = importlib.import_module(f"vf.props.{prop.lower()}")
    ctx = Ctx(prop, tier, seed, shard, nshards, keep_dir)
    plan = P.plan(tier)
    total = plan["cases"]
    budget = plan.get("shard_budget_s", 600)
    t0 = time.monotonic()
    outf = open(out, "w")

    def emit(obj):
        outf.write(json.dumps(obj, default=str) + "\n")
        outf.flush()

    ncases = 0
    truncated = False
    try:
        P.setup(ctx)
        indices = [only] if only is not None else range(shard, total, nshards)
        for index in indices:
            if time.monotonic() - t0 > budget:
                truncated = True
                break
            rng = util.case_rng(prop, seed, 0, index)
            casedir = ctx.tmp()
            t_case = time.monotonic()
            from vf import cli as _cli0
            _cli0.begin_case(prop, seed, index)
            try:
                res = P.run_case(ctx, rng, index, casedir)
            except monitor.ContractBroken:
                raise
            except Exception as e:  # noqa: BLE001
                # an exception raised *by the code under test* during a library-level call is an
                # observation about gaftools (a violation of "never fails"), not a harness failure
                tb = traceback.extract_tb(e.__traceback__)
                inner = tb[-1].filename if tb else ""
                if isinstance(e, FileNotFoundError) and e.filename and str(e.filename).startswith(casedir + os.sep) \
                        and not inner.startswith(util.REPO + os.sep):
                    # the harness writes its inputs itself and reads output files only after the command
                    # reported success: a missing file is an output the command did not write
                    res = {"sig": None, "nontrivial": False,
                           "violations": [{"kind": "output_file_missing",
                                           "msg": f"the command completed normally but did not write {os.path.basename(str(e.filename))}",
                                           "witness": {"file": os.path.basename(str(e.filename)), "tb": traceback.format_exc()[-800:]}}]}
                elif inner.startswith(util.REPO + os.sep):
                    res = {"sig": None, "nontrivial": False,
                           "violations": [{"kind": "uncaught_exception_in_code_under_test",
                                           "msg": f"{type(e).__name__}: {e} at {inner.split('/gaftools/')[-1]}:{tb[-1].lineno} ({tb[-1].name})",
                                           "witness": {"exc": type(e).__name__, "tb": traceback.format_exc()[-1200:]}}]}
                else:
                    raise
            res = res or {}
            viols = list(res.get("violations", [])) + monitor.drain()
            for v in viols:
                v.setdefault("witness", {})
                v["index"] = index
                info = {"prop": prop, "tier": tier, "seed": seed, "index": index,
                        "hashseed": ctx.hashseed, "violation": v,
                        "replay": f"./check replay <this directory>"}
                v["replay"] = ctx.keep(index, casedir, info)
            emit({"type": "case", "index": index, "sig": res.get("sig"), "wall_s": round(time.monotonic() - t_case, 2),
                  "nontrivial": bool(res.get("nontrivial")), "evals": res.get("evals", 1),
                  "sigs": res.get("sigs"),
                  "situations": res.get("situations", {}), "outcomes": res.get("outcomes", {}),
                  "sample": res.get("sample") if ncases < 3 or viols else None,
                  "violations": viols})
            ncases += 1
            ctx.drop(casedir)
        extra = P.finish(ctx) if hasattr(P, "finish") else None
        from vf import cli as _cli
        for tool, n in _cli.STALE.items():
            monitor.COUNTS[tool if tool.endswith("_runs") else f"stale_output_planted:{tool}"] += n
        emit({"type": "summary", "shard": shard, "cases": ncases, "truncated": truncated,
              "counts": dict(monitor.COUNTS), "probes": dict(monitor.PROBES.status),
              "hashseed": ctx.hashseed, "extra": extra, "wall_s": time.monotonic() - t0})
    except BaseException as e:  # harness failure: inconclusive, never a verdict on gaftools
        emit({"type": "harness_error", "shard": shard, "error": repr(e),
              "tb": traceback.format_exc()[-3000:]})
        outf.close()
        ctx.scratch.close()
        sys.exit(3)
    outf.close()
    ctx.scratch.close()


if __name__ == "__main__":
    main(sys.argv[1:])
