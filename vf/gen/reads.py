"""Reads derived from a walk slice by random substitutions / insertions / deletions, with the true
edit script and a *fragmented* version of it (valid but costlier: match runs expressed as small
indel pairs, mismatches as 1I1D), FASTA writer, and the reference CIGAR replay / gap-affine cost."""

from vf.gen import rgfa
from vf.ref.gaf import cigar_ops

# pywfa 0.5.1 defaults (gap-affine): mismatch 4, gap opening 6, gap extension 2
MISMATCH, GAP_OPEN, GAP_EXT = 4, 6, 2


def mutate(rng, ref, rate=0.08, long_indel=0.3):
    """returns (read_segment, ops) with ops a list of (n, op) over '= X I D' (the true edit script)"""
    ops = []
    out = []
    i = 0
    n = len(ref)
    events = []
    if n and rng.random() < long_indel:
        events.append((rng.randrange(n), rng.choice(["I", "D"]), rng.choice([8, 20, 50, 120])))
    ev = {p: (k, l) for p, k, l in events}
    while i < n:
        if i in ev:
            k, l = ev[i]
            if k == "I":
                out.append(rgfa.rand_seq(rng, l))
                ops.append((l, "I"))
            else:
                l = min(l, n - i)
                ops.append((l, "D"))
                i += l
                continue
        r = rng.random()
        if r < rate / 3:
            b = rng.choice([c for c in "ACGT" if c != ref[i]])
            out.append(b)
            ops.append((1, "X"))
            i += 1
        elif r < 2 * rate / 3:
            l = rng.randint(1, 3)
            out.append(rgfa.rand_seq(rng, l))
            ops.append((l, "I"))
        elif r < rate:
            l = min(rng.randint(1, 3), n - i)
            ops.append((l, "D"))
            i += l
        else:
            out.append(ref[i])
            ops.append((1, "="))
            i += 1
    return "".join(out), merge(ops)


def merge(ops):
    out = []
    for n, o in ops:
        if n == 0:
            continue
        if out and out[-1][1] == o:
            out[-1] = (out[-1][0] + n, o)
        else:
            out.append((n, o))
    return out


def fragment(rng, ops, p=0.3):
    """a valid but costlier alignment of the same two strings"""
    out = []
    for n, o in ops:
        if o == "=" and n >= 4 and rng.random() < p:
            a = rng.randint(1, n - 2)
            k = rng.randint(1, min(3, n - a))
            out += [(a, "="), (k, "I"), (k, "D")]
            if n - a - k:
                out.append((n - a - k, "="))
        elif o == "X" and rng.random() < p:
            out += [(n, "I"), (n, "D")]
        elif o in "ID" and n >= 6 and rng.random() < p:
            # a long indel represented as a series of small indels of the same kind separated by
            # nothing is the same run; separate them by a cancelling pair instead
            a = rng.randint(1, n - 1)
            other = "D" if o == "I" else "I"
            out += [(a, o), (1, other), (1, o), (n - a, o)] if False else [(a, o), (n - a, o)]
        else:
            out.append((n, o))
    return out  # deliberately NOT merged: adjacent equal ops stay split (fragmented representation)


def cigar_str(ops):
    return "".join(f"{n}{o}" for n, o in ops)


def replay(cigar, query, target):
    """Replay a CIGAR over query (read slice) and target (path slice).
    Returns (ok, message, stats) where stats = dict(matches, block, cost)."""
    ops = cigar_ops(cigar)
    if ops is None:
        return False, f"unparseable CIGAR {cigar[:40]!r}", None
    qi = ti = 0
    matches = block = 0
    cost = 0
    prev = None
    for n, o in ops:
        if n <= 0:
            return False, f"zero-length op in {cigar[:40]!r}", None
        block += n
        if o == "=":
            if query[qi:qi + n] != target[ti:ti + n] or qi + n > len(query) or ti + n > len(target):
                return False, f"'=' run of {n} at query {qi} / path {ti} pairs unequal bases", None
            qi += n
            ti += n
            matches += n
        elif o == "X":
            if qi + n > len(query) or ti + n > len(target) or any(query[qi + k] == target[ti + k] for k in range(n)):
                return False, f"'X' run of {n} at query {qi} / path {ti} pairs equal bases (or overruns)", None
            qi += n
            ti += n
            cost += MISMATCH * n
        elif o == "M":
            # SAM 'M': an alignment column, match or mismatch (input CIGARs of aligners that do not use =/X)
            if qi + n > len(query) or ti + n > len(target):
                return False, f"'M' run of {n} at query {qi} / path {ti} overruns", None
            eq = sum(1 for k in range(n) if query[qi + k] == target[ti + k])
            matches += eq
            cost += MISMATCH * (n - eq)
            qi += n
            ti += n
        elif o == "I":
            qi += n
            cost += GAP_EXT * n + (GAP_OPEN if prev != "I" else 0)
        elif o == "D":
            ti += n
            cost += GAP_EXT * n + (GAP_OPEN if prev != "D" else 0)
        else:
            return False, f"unexpected CIGAR op {o!r}", None
        prev = o
    if qi != len(query) or ti != len(target):
        return False, f"CIGAR consumes {qi}/{len(query)} query and {ti}/{len(target)} path bases", None
    return True, "", {"matches": matches, "block": block, "cost": cost}


def gotoh(query, target):
    """Optimal gap-affine cost (small inputs only) — evidence that the cost bound is not vacuous."""
    INF = 10 ** 9
    n, m = len(query), len(target)
    M = [[INF] * (m + 1) for _ in range(n + 1)]
    I = [[INF] * (m + 1) for _ in range(n + 1)]
    D = [[INF] * (m + 1) for _ in range(n + 1)]
    M[0][0] = 0
    for i in range(n + 1):
        for j in range(m + 1):
            if i > 0:
                I[i][j] = min(I[i - 1][j] + GAP_EXT, M[i - 1][j] + GAP_OPEN + GAP_EXT, D[i - 1][j] + GAP_OPEN + GAP_EXT)
            if j > 0:
                D[i][j] = min(D[i][j - 1] + GAP_EXT, M[i][j - 1] + GAP_OPEN + GAP_EXT, I[i][j - 1] + GAP_OPEN + GAP_EXT)
            if i > 0 and j > 0:
                best = min(M[i - 1][j - 1], I[i - 1][j - 1], D[i - 1][j - 1])
                M[i][j] = best + (0 if query[i - 1] == target[j - 1] else MISMATCH)
    return min(M[n][m], I[n][m], D[n][m])


class ReadRec:
    __slots__ = ("name", "line", "read", "qs", "qe", "ps", "pe", "walk", "target", "true_ops", "in_cigar", "shared_with", "owner")


def make_read_record(g, rng, walk, name, tags="safe", max_span=None, min_span=1, rate=None, frag=True,
                     passthrough=False, exact_span=None):
    from vf.gen import gaf as ggaf
    pseq = rgfa.spell_walk(g, walk)
    L = len(pseq)
    if exact_span is not None:
        span = exact_span
    else:
        span = rng.randint(min(min_span, L), L if max_span is None else min(L, max_span))
    ps = rng.randint(0, L - span)
    if rng.random() < 0.2:  # offsets on node boundaries
        ps = 0
    pe = ps + span
    target = pseq[ps:pe]
    the_rate = rng.choice([0.0, 0.02, 0.08, 0.2]) if rate is None else rate
    seg, ops = mutate(rng, target, rate=the_rate, long_indel=0.3 if (rate is None or rate > 0) else 0.0)
    if not seg:
        seg, ops = target[:1] or "A", merge([(1, "=" if target[:1] else "I")] + ([(len(target) - 1, "D")] if len(target) > 1 else []))
    pre = rgfa.rand_seq(rng, rng.choice([0, 0, rng.randint(0, 30)]))
    suf = rgfa.rand_seq(rng, rng.choice([0, 0, rng.randint(0, 30)]))
    read = pre + seg + suf
    qs, qe = len(pre), len(pre) + len(seg)
    in_ops = fragment(rng, ops) if frag and rng.random() < 0.7 else ops
    cg = cigar_str(in_ops)
    matches = sum(n for n, o in in_ops if o == "=")
    block = sum(n for n, _o in in_ops)
    if all(o in "=X" for _n, o in ops) and ops and rng.random() < 0.25:
        # an aligner that writes only 'M' columns and reports the number of aligned columns as matches
        block = sum(n for n, _o in ops)  # (the true, unfragmented alignment: columns only)
        cg = f"{block}M"
        matches = block
    cols = [name, str(len(read)), str(qs), str(qe), "+", rgfa.path_str(walk), str(L), str(ps), str(pe),
            str(matches), str(block), str(rng.choice([60, 60, 0, 13]))]
    if tags == "safe":
        cols += ggaf.safe_tags(rng, cg)
    elif tags == "grammar":
        cols += ggaf.grammar_tags(rng, cg)
    else:
        cols += list(tags) + [f"cg:Z:{cg}"]
    r = ReadRec()
    r.shared_with = None
    r.owner = None
    r.name, r.line, r.read, r.qs, r.qe, r.ps, r.pe, r.walk, r.target = name, "\t".join(cols), read, qs, qe, ps, pe, walk, target
    r.true_ops, r.in_cigar = ops, cg
    return r


def write_fasta(path, reads, width=60):
    with open(path, "w") as f:
        for name, seq in reads:
            f.write(f">{name}\n")
            for i in range(0, len(seq), width):
                f.write(seq[i:i + width] + "\n")
    return path
