"""Seeded generator of GAF records over a generated graph (walks with consistent CIGARs) and of
optional-field lists (safe class / full SAM-GAF grammar class), plus GAF file writers."""

from vf import bgzf
from vf.gen import rgfa


def rand_cigar(rng, path_span, allow_zero_query=False):
    """Random runs of = X I D whose path consumption is exactly path_span. Returns (cigar,
    query_span, matches, block)."""
    ops = []
    left = path_span
    last = None
    while left > 0:
        op = rng.choice("====XXID")
        if op == last:
            continue
        n = rng.choice([1, 1, 2, 3, rng.randint(1, 12), rng.randint(1, 60)])
        if op in "=XD":
            n = min(n, left)
            left -= n
        ops.append((n, op))
        last = op
    if rng.random() < 0.15 and last != "I":
        ops.append((rng.randint(1, 5), "I"))
    q = sum(n for n, o in ops if o in "=XI")
    if q == 0 and not allow_zero_query:
        ops.append((1, "I"))
        q = 1
    cg = "".join(f"{n}{o}" for n, o in ops)
    return cg, q, sum(n for n, o in ops if o == "="), sum(n for n, _o in ops)


SAFE_TAGS = [("tp", "A", ["P", "S", "I"]), ("NM", "i", None), ("cm", "i", None), ("s1", "i", None),
             ("s2", "i", None), ("dv", "f", None), ("zd", "Z", None), ("rl", "i", None), ("AS", "i", None)]


def safe_tags(rng, cigar, want_tp=None):
    """Optional fields the current parser demonstrably round-trips: values in [A-Za-z0-9.]+,
    one cg:Z field, no repeated tags."""
    out = []
    chosen = rng.sample(SAFE_TAGS, rng.randint(0, 5))
    for tag, ty, vals in chosen:
        if tag == "tp":
            continue
        if ty == "i":
            v = str(rng.randint(0, 5000))
        elif ty == "f":
            v = f"0.{rng.randint(0, 9999):04d}"
        else:
            v = rng.choice("abcXYZ019") + "".join(rng.choice("abcXYZ019.") for _ in range(rng.randint(0, 7)))
        out.append(f"{tag}:{ty}:{v}")
    if want_tp is None:
        want_tp = rng.choice(["P", "P", "S", "I", None])
    if want_tp:
        out.insert(0, f"tp:A:{want_tp}")
    if cigar is not None:
        out.insert(rng.randint(0, len(out)), f"cg:Z:{cigar}")
    return out


def grammar_value(rng, ty):
    if ty == "A":
        return rng.choice("PSI!~*#a9:")
    if ty == "i":
        return rng.choice([str(rng.randint(0, 9999)), f"-{rng.randint(1, 999)}", f"+{rng.randint(0, 99)}", "0"])
    if ty == "f":
        return rng.choice([f"{rng.random():.4f}", f"-{rng.random():.3f}", f".{rng.randint(1, 99)}",
                           f"{rng.randint(1, 9)}e-{rng.randint(1, 9)}", f"+{rng.randint(0, 9)}.5E+2", "1e10", f"{rng.randint(0, 50)}"])
    if ty == "Z":
        alphabet = "abcXYZ019_#.-:*/ ,;=+()[]@!~"
        # values may end in blanks or consist of blanks only; only the LAST field of a line must not end
        # in a blank (every line-oriented reader strips the line end) - see no_trailing_blank()
        v = "".join(rng.choice(alphabet) for _ in range(rng.randint(0, 14)))
        if rng.random() < 0.08:
            v = v + " " * rng.randint(1, 3)
        return v
    if ty == "H":
        return "".join(rng.choice("0123456789ABCDEF") for _ in range(2 * rng.randint(0, 5)))
    if ty == "B":
        sub = rng.choice("cCsSiIf")
        vals = [str(rng.randint(-9, 99)) if sub != "f" else f"{rng.random():.2f}" for _ in range(rng.randint(0, 5))]
        return sub + "".join("," + v for v in vals)
    raise ValueError(ty)


def grammar_tags(rng, cigar, n=None, repeats=True, forced=None, ds=True):
    """Optional fields drawn from everything the SAM/GAF tag grammar allows."""
    out = []
    n = rng.randint(0, 12) if n is None else n
    used = []
    types = list("AifZHB")
    for k in range(n):
        ty = forced[k] if forced and k < len(forced) else rng.choice(types)
        if repeats and used and rng.random() < 0.08:
            tag = rng.choice(used)
        else:
            tag = rng.choice("abcdefghijklmnopqrstuvwxyzXYZNM") + rng.choice("abcdefghijklmnopqrstuvwxyzXYZabcdefghijklmnopqrstuvwxyzXYZ012345")
            if tag in ("cg", "ds", "tp"):
                tag = "zq"
            while not repeats and tag in used:
                tag = rng.choice("abcdefghijklmnopqrstuvwxyzXYZNM") + rng.choice("abcdefghijklmnopqrstuvwxyz")
                if tag in ("cg", "ds", "tp"):
                    tag = "zq"
        used.append(tag)
        out.append(f"{tag}:{ty}:{grammar_value(rng, ty)}")
    if rng.random() < 0.004:
        # the grammar puts no bound on the number of digits of an integer field (an interpreter does:
        # CPython refuses int() of more than 4300 digits by default)
        big_tag = next(t for t in ("zn", "yn", "xn", "wn", "vn", "un", "tn", "sn", "rn", "qn", "pn", "on", "mn") if t not in used)
        out.insert(rng.randint(0, len(out)), big_tag + ":i:" + rng.choice(["", "-", "+"]) + "".join(rng.choice("0123456789") for _ in range(rng.randint(4301, 9000))))
    if ds and rng.random() < 0.3:
        out.insert(rng.randint(0, len(out)), f"ds:Z:{grammar_value(rng, 'Z')}")
    if rng.random() < 0.5:
        out.insert(0, f"tp:A:{rng.choice('PSI')}")
    if cigar is not None:
        out.insert(rng.randint(0, len(out)), f"cg:Z:{cigar}")
    return no_trailing_blank(out)


def no_trailing_blank(fields):
    """trailing white space at the end of a LINE is outside the input domain: the last field of a
    record never ends in a blank (fields in the middle may)"""
    if fields and fields[-1] != fields[-1].rstrip(" "):
        fields = fields[:-1] + [fields[-1].rstrip(" ") + "x"]
    return fields


class GafRec:
    """ground truth of one generated record"""
    __slots__ = ("name", "walk", "line", "ps", "pe", "plen", "cigar", "nodes")

    def __init__(self, name, walk, line, ps, pe, plen, cigar):
        self.name, self.walk, self.line, self.ps, self.pe, self.plen, self.cigar = name, walk, line, ps, pe, plen, cigar
        self.nodes = [n for n, _o in walk]


def make_record(g, rng, walk, name, offsets="any", tags="safe", mapq=None, cigar=True, name_space=False,
                tp=None):
    lens = [g.nodes[n].ln for n, _o in walk]
    L = sum(lens)
    if offsets == "canonical" and len(walk) > 1:
        ps = rng.randint(0, lens[0] - 1)
        pe = rng.randint(L - lens[-1] + 1, L)
    elif offsets == "full":
        ps, pe = 0, L
    else:
        ps = rng.randint(0, L - 1)
        pe = rng.randint(ps + 1, L)
        if rng.random() < 0.15:  # ends exactly on node boundaries
            bounds = [0]
            for x in lens:
                bounds.append(bounds[-1] + x)
            ps = rng.choice(bounds[:-1])
            pe = rng.choice([b for b in bounds if b > ps])
    if not cigar and pe - ps > 5_000:
        # (no CIGAR wanted: do not build a megabase one just to derive the other columns)
        cg, qspan, matches, block = None, pe - ps, pe - ps - min(7, pe - ps - 1), pe - ps
    else:
        cg, qspan, matches, block = rand_cigar(rng, pe - ps)
    qs = rng.choice([0, 0, rng.randint(0, 50)])
    qlen = qs + qspan + rng.choice([0, 0, rng.randint(0, 50)])
    if mapq is None:
        mapq = rng.choice([60, 60, 60, 0, 1, 17, 255])
    if rng.random() < 0.12:
        # read names as sequencers and pipelines write them: any printable non-blank characters, any length
        name = rng.choice([name + "@HG002/42/ccs", "m64011_190830/" + name + "/ccs", name + "|" + "x" * rng.randint(250, 300),
                           "#" + name, "@" + name, name + ":1=2;3,4", name + "\u00e9", '"' + name, '"HG002"_' + name, name + "'s", "lib3_GC50%_" + name + "/17", name + "_100%",
                           # white space that is not the blank (U+0020): part of the name like any other character
                           name + "\u00a0lane7", name + "\u3000x", "s\u202f7_" + name, name + "\u2003tile9"])
    qname = name + (" extra=1 desc" if name_space else "")
    cols = [qname, str(qlen), str(qs), str(qs + qspan), "+", rgfa.path_str(walk), str(L), str(ps), str(pe),
            str(matches), str(block), str(mapq)]
    if tags == "safe":
        cols += safe_tags(rng, cg if cigar else None, want_tp=tp)
    elif tags == "grammar":
        cols += grammar_tags(rng, cg if cigar else None)
    elif tags == "grammar_plain":  # full value grammar, but no repeated tags (K2) and no ds:Z (documented drop)
        cols += grammar_tags(rng, cg if cigar else None, n=rng.randint(0, 6), repeats=False, ds=False)
    elif tags == "none":
        cols += [f"cg:Z:{cg}"] if cigar else []
    else:
        cols += list(tags) + ([f"cg:Z:{cg}"] if cigar else [])
    return GafRec(name, walk, "\t".join(cols), ps, pe, L, cg)


def make_walks(g, rng, n, maxlen=12, forced=True):
    """n walks incl. the forced classes the properties name."""
    succ = g.successors()
    walks = []
    if forced:
        for orient in "><":
            w = rgfa.ref_run(g, rng, orient)
            if w:
                walks.append(w)
        nid = rng.choice(list(g.nodes))
        walks.append([(nid, rng.choice("><"))])  # single node
        haps = [x for x in g.nodes.values() if x.rank > 0]
        if haps:
            h = rng.choice(haps)
            walks.append(rgfa.random_walk(g, rng, 3, succ, start=(h.id, ">")))
    while len(walks) < n:
        r = rng.random()
        if walks and r < 0.12:
            # the same path again in a later record (other offsets / read): state carried between
            # records (caches, shared tables) shows up only then
            walks.append(list(rng.choice(walks)))
            continue
        if r < 0.3:
            walks.append(rgfa.random_walk(g, rng, maxlen, succ, prefer=">"))
        elif r < 0.5:
            walks.append(rgfa.random_walk(g, rng, maxlen, succ, prefer="<"))
        else:
            walks.append(rgfa.random_walk(g, rng, maxlen, succ))
    rng.shuffle(walks)
    return walks[:n] if not forced else walks


def write_gaf(path, lines, mode="plain", rng=None, layout="standard", final_newline=None):
    """mode plain | bgzf (own writer, block layout chosen) | pysam (second producer).
    final_newline None: a last line without a line terminator (still a record) in 15% of the files."""
    if final_newline is None:
        final_newline = rng.random() >= 0.15 if rng is not None else True
    text = "\n".join(lines) + ("\n" if final_newline and lines else "")  # no records: an empty file
    if mode == "plain":
        with open(path, "w") as f:
            f.write(text)
        return None
    if mode == "pysam":
        from pysam import libcbgzf
        w = libcbgzf.BGZFile(path, "wb")
        w.write(text.encode())
        w.close()
        return None
    return bgzf.write_bgzf(path, text.encode(), rng=rng, layout=layout)


def text_variant(lines, rng, p=0.15):
    """text-level variants every reader accepts today: CRLF line ends and/or a non-ASCII (multi-byte
    UTF-8) character in an optional field. Returns (lines, kind or None)."""
    if rng.random() >= p:
        return lines, None
    kind = rng.choice(["crlf", "utf8", "both"])
    lines = list(lines)
    if kind in ("utf8", "both"):
        for i in range(0, len(lines), rng.randint(1, 5)):
            lines[i] = lines[i] + "\tZ9:Z:M\u00fcller\u2713"
    if kind in ("crlf", "both"):
        lines = [l + "\r" for l in lines]
    return lines, kind


def _pad_tag(line):
    used = {f.split(":", 1)[0] for f in line.split("\t")[12:]}
    return next(t for t in ("zp", "yp", "xp", "wp", "vp", "up") if t not in used)


def align_records(lines, unit=1 << 20, min_len=0):
    """Pads records (one more Z field of x's, before a trailing cg:Z field if there is one... simply
    appended) so that every multiple of `unit` bytes of the file falls exactly behind a line
    terminator: readers that take the decompressed stream in blocks of 2**k bytes then see blocks that
    end exactly on a record end. Records are ASCII and shorter than 2000 bytes here."""
    out = []
    pos = 0
    nxt = unit
    hits = 0
    for line in lines:
        if len(line) < min_len:
            line = line + f"\t{_pad_tag(line)}:Z:" + "x" * max(1, min_len - len(line) - 6)
        n = len(line.encode())
        room = nxt - pos - 1  # bytes this line may take so that its terminator is the last byte before nxt
        if room <= n + 6 + 2100:
            if room >= n + 6:
                line = line + f"\t{_pad_tag(line)}:Z:" + "x" * (room - n - 6)
                n = room
                hits += 1
            nxt += unit * (1 + (pos + n + 1 - nxt) // unit) if pos + n + 1 > nxt else unit
        out.append(line)
        pos += n + 1
    return out, hits
