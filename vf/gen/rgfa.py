"""Seeded generator of rGFA graphs that are valid by construction, with their ground truth.

rank-0 contigs are random ACGT strings tiled completely by segments; haplotype contigs (rank >= 1)
contribute any number of segments at separated (or coordinate-adjacent) offsets, attached as
SNP / insertion / multi-segment / nested / inverted alleles; plus deletion bypass links,
duplication back-links and self-links in all four orientation combinations.
"""

import gzip

from vf.ref.gfa import revcomp

REF_NAMES = ["chr1", "chrX", "chr12", "chr2", "chrM", "chr1_KI270706v1_random", "CHM13.chr7", "ref#0#chr3", "chr6-alt_fix", "hs1", "ptg000001l"]
HAP_NAMES = ["HG002#1#JAHKSE010000016.1", "NA20129#1#JAHEPE010000248.1", "HG03579#2#JAGYVT010000265.1",
             "HG01106#2#JAHAMB010000116.1", "GRCh38#0#chr1", "HG00438#2#h2tg_000011l.9", "NA19240.mat_ctg7",
             "HG02257#1#JAGYVH010000045.1", "NA12878-pat#1#ctg-5", "mat_ctg12", "utg000021l", "e", "r"]

FLIP = {"+": "-", "-": "+"}
FW = {"+": ">", "-": "<"}
RV = {"+": "<", "-": ">"}


def rand_seq(rng, n):
    return "".join(rng.choice("ACGT") for _ in range(n))


class Node:
    __slots__ = ("id", "contig", "so", "ln", "rank", "seq", "extra")

    def __init__(self, id, contig, so, ln, rank, seq):
        self.id, self.contig, self.so, self.ln, self.rank, self.seq = id, contig, so, ln, rank, seq
        self.extra = []

    @property
    def end(self):
        return self.so + self.ln


class Graph:
    def __init__(self):
        self.nodes = {}  # id -> Node (insertion order = creation order)
        self.links = []  # [a, oa, b, ob, overlap(int), [tag strings]]
        self.contigs = {}  # name -> rank
        self.ref_order = {}  # rank-0 contig -> [node ids in coordinate order]
        self.header = None
        self.extra_lines = []
        self.contig_named_like_segment = None

    # ---- construction -------------------------------------------------------------------
    def add_node(self, id, contig, so, seq, rank):
        self.nodes[id] = Node(id, contig, so, len(seq), rank, seq)
        self.contigs.setdefault(contig, rank)
        return id

    def add_link(self, a, oa, b, ob, rank=0, ov=0, tags=None, rng=None, flip=None):
        if flip is None and rng is not None:
            flip = rng.random() < 0.35
        if flip:
            a, oa, b, ob = b, FLIP[ob], a, FLIP[oa]
        if tags is None:
            tags = [f"SR:i:{rank}", f"L1:i:{self.nodes[a].ln}", f"L2:i:{self.nodes[b].ln}"]
        self.links.append([a, oa, b, ob, ov, tags])

    def rename_contig(self, old, new):
        self.contigs = {(new if k == old else k): v for k, v in self.contigs.items()}
        for n in self.nodes.values():
            if n.contig == old:
                n.contig = new
        self.ref_order = {(new if k == old else k): v for k, v in self.ref_order.items()}

    # ---- ground truth -------------------------------------------------------------------
    def step_pairs(self):
        pairs = set()
        for a, oa, b, ob, _ov, _t in self.links:
            pairs.add(((a, FW[oa]), (b, FW[ob])))
            pairs.add(((b, RV[ob]), (a, RV[oa])))
        return pairs

    def successors(self):
        succ = {}
        for (x, y) in self.step_pairs():
            succ.setdefault(x, []).append(y)
        for v in succ.values():
            v.sort()
        return succ

    def seqs(self):
        return {n.id: n.seq for n in self.nodes.values()}

    def contig_nodes(self, contig):
        return sorted((n for n in self.nodes.values() if n.contig == contig), key=lambda n: n.so)

    def contig_len(self, contig):
        return sum(n.ln for n in self.nodes.values() if n.contig == contig)

    def ref_contigs(self):
        return [c for c, r in self.contigs.items() if r == 0]

    def signature(self):
        return (tuple((n.id, n.contig, n.so, n.ln) for n in self.nodes.values()),
                tuple((l[0], l[1], l[2], l[3]) for l in self.links))

    # ---- output -------------------------------------------------------------------------
    def s_line(self, n, with_seq=True, bo_no=None):
        seq = n.seq if with_seq else "*"
        fi = self._int_text
        cols = ["S", n.id, seq, f"LN:i:{fi(n.id, 'LN', n.ln)}", f"SN:Z:{n.contig}", f"SO:i:{fi(n.id, 'SO', n.so)}", f"SR:i:{fi(n.id, 'SR', n.rank)}"]
        cols += n.extra
        if bo_no is not None and n.id in bo_no:
            cols += [f"BO:i:{bo_no[n.id][0]}", f"NO:i:{bo_no[n.id][1]}"]
        return "\t".join(cols)

    def _int_text(self, nid, tag, v):
        """integer fields follow [-+]?[0-9]+ : with self.noncanonical_ints some are written zero-padded
        or with an explicit '+' (same number, other text; the choice is a function of node and tag)"""
        style = getattr(self, "sr_style_of_contig", {}).get(self.nodes[nid].contig) if tag == "SR" and nid in self.nodes else None
        if style:
            return style.format(v)  # one spelling for all segments of a contig
        if not getattr(self, "noncanonical_ints", False):
            return str(v)
        import zlib
        h = zlib.crc32(f"{nid}/{tag}".encode()) % 7
        return {0: f"{v:04d}", 1: f"+{v}", 2: f"0{v}"}.get(h, str(v))

    def l_line(self, l):
        a, oa, b, ob, ov, tags = l
        return "\t".join(["L", a, oa, b, ob, f"{ov}M"] + list(tags))

    def lines(self, rng=None, with_seq=True, shuffle=False, bo_no=None, interleave=False, lex_so=False):
        nodes = list(self.nodes.values())
        if lex_so:
            # S lines in the order a text sort by (contig, offset-as-string) gives: 0, 1000, 200, 30 ...
            # (non-decreasing as strings, out of order as numbers)
            nodes.sort(key=lambda n: (n.contig, str(n.so)))
            shuffle = False
        s = [self.s_line(n, with_seq, bo_no) for n in nodes]
        l = [self.l_line(x) for x in self.links]
        if shuffle and rng is not None:
            if interleave:
                body = s + l
                rng.shuffle(body)
            else:
                rng.shuffle(s)
                rng.shuffle(l)
                body = s + l
        else:
            body = s + l
        out = []
        if self.header:
            out.append(self.header)
        if self.extra_lines and rng is not None:
            for x in self.extra_lines:
                body.insert(rng.randint(0, len(body)), x)
        out += body
        return out

    def write(self, path, **kw):
        lines = self.lines(**kw)
        rng = kw.get("rng")
        self.text_noise = []
        if rng is not None and rng.random() < 0.1 and self.nodes:
            # links that name a segment which is not in the file (a sub-graph extract that kept the links
            # leaving it): such a link is not part of the graph, everything around it is
            ids = list(self.nodes)
            for k in range(rng.randint(1, 2)):
                a = rng.choice(ids)
                dl = "\t".join(["L", a, rng.choice("+-"), f"absent_segment_{k}", rng.choice("+-"), "0M"]) if rng.random() < 0.5 else \
                     "\t".join(["L", f"absent_segment_{k}", rng.choice("+-"), a, rng.choice("+-"), "0M"])
                lines.insert(rng.randint(1 if lines and lines[0].startswith("H") else 0, len(lines)), dl)
            self.text_noise.append("dangling_links")
        if rng is not None and rng.random() < 0.15 and len(lines) > 1:
            # empty lines (between blocks of records or anywhere inside the file) are not records
            for _ in range(rng.randint(1, 3)):
                lines.insert(rng.randint(1, len(lines) - 1), "")
            self.text_noise.append("blank_lines")
        text = "\n".join(lines)
        if rng is not None and rng.random() < 0.12 and lines[-1]:
            self.text_noise.append("no_final_newline")  # the last record is still a record
        else:
            text += "\n"
        if path.endswith(".gz") and rng is not None and rng.random() < 0.5:
            # a multi-member gzip file (what bgzip writes, or concatenated gzip streams) is valid gzip
            from vf import bgzf
            bgzf.write_bgzf(path, text.encode(), rng=rng, layout=rng.choice(["tiny", "line_start", "standard"]))
            self.gz_members = "multi"
        elif path.endswith(".gz"):
            self.gz_members = "single"
            with gzip.open(path, "wt") as f:
                f.write(text)
        else:
            with open(path, "w") as f:
                f.write(text)
        return path


class IdMaker:
    def __init__(self, rng, style):
        self.rng = rng
        self.style = style
        self.n = rng.randint(1, 50) if style != "num" else rng.choice([-1, -1, 0, rng.randint(1, 50)])
        self.used = set()

    def new(self, hap=False):
        while True:
            if self.style == "s":  # minigraph style, haplotype nodes get large numbers
                self.n += 1 if not hap else self.rng.randint(1, 900)
                i = f"s{self.n}"
            elif self.style == "num":
                self.n += self.rng.choice([1, 1, 1, 2, 3])
                i = str(self.n)
            else:
                i = "".join(self.rng.choice("abcdefgxyzNODE0123456789_.") for _ in range(self.rng.randint(2, 7)))
                if i[0] in "0123456789_.":
                    i = "n" + i
            if i not in self.used:
                self.used.add(i)
                return i


def gen_rgfa(rng, size="small", id_style=None, wild=True, n_ref=None, min_seg=1, dup_decl=True):
    """Returns a Graph.  size: small | medium | large."""
    g = Graph()
    ids = IdMaker(rng, id_style or rng.choice(["s", "s", "s", "num", "name"]))
    n_ref = n_ref or rng.choice([1, 1, 2, 3])
    seg_hi = {"small": 8, "medium": 40, "large": 400}[size]
    len_hi = {"small": 25, "medium": 40, "large": 60}[size]
    ref_names = rng.sample(REF_NAMES, n_ref)
    for name in ref_names:
        nseg = rng.randint(1, seg_hi)
        so = 0
        order = []
        for _ in range(nseg):
            ln = rng.choice([1, 2, 3, rng.randint(min_seg, len_hi), rng.randint(min_seg, len_hi)])
            ln = max(ln, min_seg)
            nid = g.add_node(ids.new(), name, so, rand_seq(rng, ln), 0)
            order.append(nid)
            so += ln
        g.ref_order[name] = order
        for a, b in zip(order, order[1:]):
            g.add_link(a, "+", b, "+", 0, rng=rng)
    # haplotype contigs
    n_hap = rng.randint(0, 5) if size != "large" else rng.randint(2, 8)
    haps = []
    for i, name in enumerate(rng.sample(HAP_NAMES, n_hap)):
        haps.append({"name": name, "rank": rng.randint(1, 90) + i * 100, "cursor": rng.randint(0, 5000)})

    def hap_segment(h, gap0=False):
        if not gap0:
            h["cursor"] += rng.randint(1, 500)  # separated from the previous segment
        ln = rng.choice([1, 2, rng.randint(1, len_hi)])
        nid = g.add_node(ids.new(hap=True), h["name"], h["cursor"], rand_seq(rng, ln), h["rank"])
        h["cursor"] += ln
        return nid

    all_ref = [n for o in g.ref_order.values() for n in o]
    n_events = rng.randint(0, max(2, len(all_ref))) if haps or True else 0
    chains = []  # (u, [h...], v) attached alleles, anchors for nesting
    for _ in range(n_events):
        kinds = ["del", "dup", "self", "refinv"]
        if haps:
            kinds += ["ins", "ins", "multi", "multi_adj", "inv", "nested", "tip"]
            if wild:
                kinds += ["wild"]
        kind = rng.choice(kinds)
        cname = rng.choice(ref_names)
        order = g.ref_order[cname]
        i = rng.randrange(len(order))
        j = min(len(order) - 1, i + rng.choice([1, 1, 2, 2, 3, 5]))
        u, v = order[i], order[j]
        if kind == "del":
            if j > i + 1:
                g.add_link(u, "+", v, "+", rng.randint(1, 90), rng=rng)
        elif kind == "dup":
            g.add_link(v, "+", u, "+", rng.randint(1, 90), rng=rng)  # back link: walks can revisit
        elif kind == "self":
            oa, ob = rng.choice([("+", "+"), ("+", "-"), ("-", "+"), ("-", "-")])
            w = rng.choice(list(g.nodes))
            g.add_link(w, oa, w, ob, rng.randint(0, 90), rng=rng)
        elif kind == "refinv":
            if j > i + 1:
                w = order[rng.randint(i + 1, j - 1)]
                g.add_link(u, "+", w, "-", rng.randint(1, 90), rng=rng)
                g.add_link(w, "-", v, "+", rng.randint(1, 90), rng=rng)
        elif kind in ("ins", "multi", "multi_adj", "inv"):
            if i == j:
                continue
            h = rng.choice(haps)
            k = 1 if kind == "ins" else rng.randint(2, 4)
            hs = []
            for t in range(k):
                gap0 = (kind == "multi_adj" and t > 0) or (kind == "multi" and t > 0 and rng.random() < 0.3)
                hs.append(hap_segment(h, gap0=gap0))
            r = h["rank"]
            if kind == "inv" or (kind != "ins" and rng.random() < 0.25):
                chain = [u] + hs[::-1] + [v]  # traversed in reverse orientation
                g.add_link(u, "+", hs[-1], "-", r, rng=rng)
                for a, b in zip(hs[::-1], hs[::-1][1:]):
                    g.add_link(a, "-", b, "-", r, rng=rng)
                g.add_link(hs[0], "-", v, "+", r, rng=rng)
            else:
                g.add_link(u, "+", hs[0], "+", r, rng=rng)
                for a, b in zip(hs, hs[1:]):
                    g.add_link(a, "+", b, "+", r, rng=rng)
                g.add_link(hs[-1], "+", v, "+", r, rng=rng)
            chains.append((u, hs, v))
        elif kind == "nested" and chains:
            u2, hs, v2 = rng.choice(chains)
            pts = [u2] + hs + [v2]
            a = rng.randrange(len(pts) - 1)
            b = rng.randint(a + 1, len(pts) - 1)
            h = rng.choice(haps)
            x = hap_segment(h)
            g.add_link(pts[a], "+", x, "+", h["rank"], rng=rng)
            g.add_link(x, "+", pts[b], "+", h["rank"], rng=rng)
            chains.append((pts[a], [x], pts[b]))
        elif kind == "tip":
            h = rng.choice(haps)
            x = hap_segment(h)
            g.add_link(u, rng.choice("+-"), x, rng.choice("+-"), h["rank"], rng=rng)
        elif kind == "wild":
            h = rng.choice(haps)
            x = hap_segment(h)
            a, b = rng.choice(list(g.nodes)), rng.choice(list(g.nodes))
            g.add_link(a, rng.choice("+-"), x, rng.choice("+-"), h["rank"], rng=rng)
            g.add_link(x, rng.choice("+-"), b, rng.choice("+-"), h["rank"], rng=rng)
    if dup_decl and g.links and rng.random() < 0.2:
        a, oa, b, ob, ov, tags = rng.choice(g.links)
        g.links.append([b, FLIP[ob], a, FLIP[oa], ov, list(tags)])  # same link declared from the other end
    if rng.random() < 0.06 and g.nodes:
        # segment ids and contig names are separate name spaces: a contig may be called like a segment
        # (numeric ids with Ensembl-style chromosome names "1", "2", ...)
        old = rng.choice(list(g.contigs))
        new = rng.choice(list(g.nodes))
        if new not in g.contigs:
            g.rename_contig(old, new)
            g.contig_named_like_segment = new
    return g


# ---- walks ----------------------------------------------------------------------------------

def random_walk(g, rng, maxlen=12, succ=None, start=None, prefer=None):
    succ = succ or g.successors()
    if start is None:
        nid = rng.choice(list(g.nodes))
        start = (nid, rng.choice("><") if prefer is None else prefer)
    walk = [start]
    n = rng.randint(1, maxlen)
    while len(walk) < n:
        nxt = succ.get(walk[-1])
        if not nxt:
            break
        if prefer is not None:
            pref = [x for x in nxt if x[1] == prefer]
            if pref and rng.random() < 0.9:
                nxt = pref
        walk.append(rng.choice(nxt))
    return walk


def ref_run(g, rng, orient, minlen=3):
    """A walk over >= minlen consecutive reference nodes, all forward or all reverse."""
    cands = [o for o in g.ref_order.values() if len(o) >= minlen]
    if not cands:
        return None
    order = rng.choice(cands)
    k = rng.randint(minlen, min(len(order), minlen + 6))
    i = rng.randint(0, len(order) - k)
    run = order[i:i + k]
    if orient == ">":
        return [(n, ">") for n in run]
    return [(n, "<") for n in reversed(run)]


def path_str(walk):
    return "".join(o + n for n, o in walk)


def spell_walk(g, walk):
    return "".join(g.nodes[n].seq if o == ">" else revcomp(g.nodes[n].seq) for n, o in walk)


def stretch(g, rng, factor, seq=True):
    """Make every segment `factor` times longer (new random bases), keeping the contig structure:
    rank-0 contigs stay tiled, haplotype segments keep their separated / adjacent relation."""
    by_contig = {}
    for n in g.nodes.values():
        by_contig.setdefault(n.contig, []).append(n)
    for contig, ns in by_contig.items():
        ns.sort(key=lambda n: n.so)
        pos = ns[0].so
        prev_end_old = None
        for n in ns:
            if prev_end_old is not None and n.so > prev_end_old:
                pos += (n.so - prev_end_old)  # keep a gap
            prev_end_old = n.end
            ln = n.ln * factor
            n.seq = rand_seq(rng, ln) if seq else ""  # seq=False: lengths only (write the file with with_seq=False)
            n.so = pos
            n.ln = ln
            pos += ln
    for l in g.links:
        l[5] = [t if not t.startswith(("L1:i:", "L2:i:")) else
                (f"L1:i:{g.nodes[l[0]].ln}" if t.startswith("L1") else f"L2:i:{g.nodes[l[2]].ln}") for t in l[5]]
    return g
