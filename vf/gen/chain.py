"""Generator of multi-chromosome rGFAs whose components are bubble chains (scaffold nodes and
bubbles of chosen kinds), optionally made non-chain-shaped in a controlled way. The *intended*
shape is never trusted by the oracles: ref.bcc classifies every component."""

from vf.gen.rgfa import Graph, IdMaker, rand_seq, REF_NAMES, HAP_NAMES
from vf.ref import bcc

BUBBLE_KINDS = ["snp", "ins", "del", "inv", "multi", "multiallelic", "nested", "bridge", "refmulti"]


class ChromBuilder:
    def __init__(self, g, rng, ids, name, haps, len_hi):
        self.g, self.rng, self.ids, self.name, self.haps, self.len_hi = g, rng, ids, name, haps, len_hi
        self.so = 0
        self.nodes = []
        self.scaffolds = []

    def ref(self):
        ln = self.rng.choice([1, 2, self.rng.randint(1, self.len_hi)])
        nid = self.g.add_node(self.ids.new(), self.name, self.so, rand_seq(self.rng, ln), 0)
        self.so += ln
        self.nodes.append(nid)
        return nid

    def hap(self, adjacent=False):
        h = self.rng.choice(self.haps)
        if not adjacent:
            h["cursor"] += self.rng.randint(1, 300)
        ln = self.rng.choice([1, 2, self.rng.randint(1, self.len_hi)])
        nid = self.g.add_node(self.ids.new(hap=True), h["name"], h["cursor"], rand_seq(self.rng, ln), h["rank"])
        h["cursor"] += ln
        self.nodes.append(nid)
        return nid, h["rank"]

    def link(self, a, oa, b, ob, rank=0):
        self.g.add_link(a, oa, b, ob, rank, rng=self.rng)

    def bubble(self, u, kind):
        """adds a bubble after scaffold u, returns the next scaffold node v"""
        rng = self.rng
        if kind == "bridge":
            v = self.ref()
            self.link(u, "+", v, "+")
            return v
        if kind == "snp":
            r = self.ref()
            v = self.ref()
            h, rk = self.hap()
            self.link(u, "+", r, "+"); self.link(r, "+", v, "+")
            self.link(u, "+", h, "+", rk); self.link(h, "+", v, "+", rk)
        elif kind == "ins":
            v = self.ref()
            h, rk = self.hap()
            self.link(u, "+", v, "+")
            self.link(u, "+", h, "+", rk); self.link(h, "+", v, "+", rk)
        elif kind == "del":
            r = self.ref()
            v = self.ref()
            self.link(u, "+", r, "+"); self.link(r, "+", v, "+")
            self.link(u, "+", v, "+", rng.randint(1, 50))
        elif kind == "inv":
            r = self.ref()
            v = self.ref()
            self.link(u, "+", r, "+"); self.link(r, "+", v, "+")
            self.link(u, "+", r, "-", rng.randint(1, 50)); self.link(r, "-", v, "+", rng.randint(1, 50))
            if rng.random() < 0.5:  # make it a real bubble as well
                h, rk = self.hap()
                self.link(u, "+", h, "+", rk); self.link(h, "+", v, "+", rk)
        elif kind == "multi":
            r = self.ref()
            v = self.ref()
            self.link(u, "+", r, "+"); self.link(r, "+", v, "+")
            k = rng.randint(2, 4)
            hs = [self.hap(adjacent=(i > 0 and rng.random() < 0.5)) for i in range(k)]
            rk = hs[0][1]
            rev = rng.random() < 0.3
            if rev:
                self.link(u, "+", hs[-1][0], "-", rk)
                for (a, _), (b, _) in zip(hs[::-1], hs[::-1][1:]):
                    self.link(a, "-", b, "-", rk)
                self.link(hs[0][0], "-", v, "+", rk)
            else:
                self.link(u, "+", hs[0][0], "+", rk)
                for (a, _), (b, _) in zip(hs, hs[1:]):
                    self.link(a, "+", b, "+", rk)
                self.link(hs[-1][0], "+", v, "+", rk)
        elif kind == "refmulti":
            rs = [self.ref() for _ in range(rng.randint(2, 3))]
            v = self.ref()
            prev = u
            for r in rs:
                self.link(prev, "+", r, "+")
                prev = r
            self.link(prev, "+", v, "+")
            h, rk = self.hap()
            self.link(u, "+", h, "+", rk); self.link(h, "+", v, "+", rk)
        elif kind == "multiallelic":
            r = self.ref()
            v = self.ref()
            self.link(u, "+", r, "+"); self.link(r, "+", v, "+")
            for _ in range(rng.randint(2, 4)):
                h, rk = self.hap()
                self.link(u, "+", h, "+", rk); self.link(h, "+", v, "+", rk)
        elif kind == "nested":
            r1 = self.ref(); r2 = self.ref(); r3 = self.ref()
            v = self.ref()
            for a, b in ((u, r1), (r1, r2), (r2, r3), (r3, v)):
                self.link(a, "+", b, "+")
            h, rk = self.hap()  # outer allele u..v
            self.link(u, "+", h, "+", rk); self.link(h, "+", v, "+", rk)
            h2, rk2 = self.hap()  # inner allele r1..r3
            self.link(r1, "+", h2, "+", rk2); self.link(h2, "+", r3, "+", rk2)
        else:
            raise ValueError(kind)
        return v


def gen_chain_rgfa(rng, n_chrom=None, scaffolds=None, id_style=None, defects=None, len_hi=20,
                   end_style=None, kinds=None, names=None, singletons=0, contig_major=0.0):
    """defects: dict chrom_index -> one of 'tip', 'cycle3', 'cycle3_inner', 'hap_ap' (non-chain
    shapes) ; 'joined' joins chromosome i with i+1 through a haplotype node."""
    g = Graph()
    ids = IdMaker(rng, id_style or rng.choice(["s", "s", "name", "num"]))
    n_chrom = n_chrom or rng.choice([1, 1, 2, 3])
    if names is not None:
        n_chrom = len(names)
    else:
        names = rng.sample(REF_NAMES[:5] + ["chr7", "chr21", "chrY"], n_chrom)
        if n_chrom >= 2 and rng.random() < 0.12:
            # distinct names that look alike: another case, with / without a "chr" prefix
            a = names[0]
            names[1] = rng.choice([a.upper() if a.upper() != a else a.lower(), a[3:] if a.startswith("chr") and len(a) > 3 else "chr" + a,
                                   a.replace("chr", "Chr", 1) if a.startswith("chr") else a.capitalize() + "_"])
            if len(set(names)) != len(names):
                names[1] = a + "_2"
    haps = [{"name": n, "rank": 1 + i, "cursor": rng.randint(0, 3000)} for i, n in enumerate(rng.sample(HAP_NAMES, rng.randint(1, 4)))]
    defects = defects or {}
    g.chroms = []
    builders = []
    for ci, name in enumerate(names):
        b = ChromBuilder(g, rng, ids, name, haps, len_hi)
        builders.append(b)
        if defects.get(ci) in ("pair", "ring"):
            # no articulation point at all: two linked segments (a small unplaced contig), or a ring
            ns = [b.ref() for _ in range(2 if defects[ci] == "pair" else rng.randint(3, 5))]
            for x, y in zip(ns, ns[1:]):
                b.link(x, "+", y, "+")
            if defects[ci] == "ring":
                b.link(ns[-1], "+", ns[0], "+", rng.randint(1, 9))
            b.scaffolds = list(ns)
            g.chroms.append({"name": name, "nodes": b.nodes, "defect": defects[ci]})
            continue
        k = scaffolds if scaffolds is not None else rng.choice([1, 2, 2, 3, rng.randint(3, 10), rng.randint(10, 60)])
        es = end_style or rng.choice(["leaf", "leaf", "leafhap", "bubble", "hapleaf"])
        # left end
        if es == "hapleaf":  # the chain starts with a non-reference tip (a contig reaching past the reference)
            s = b.ref()
            h, rk = b.hap()
            b.link(h, rng.choice("+-"), s, "+", rk)
            t0 = None
        else:
            t0 = b.ref()
        if es == "hapleaf":
            pass
        elif es == "leafhap":
            s = b.ref()
            h, rk = b.hap()
            b.link(t0, "+", s, "+"); b.link(t0, "+", h, "+", rk); b.link(h, "+", s, "+", rk)
        elif es == "bubble":
            s = b.bubble(t0, rng.choice(["snp", "ins", "multi"]))
        else:
            s = b.ref()
            b.link(t0, "+", s, "+")
        b.scaffolds.append(s)
        for _ in range(k - 1):
            s = b.bubble(s, rng.choice(kinds or BUBBLE_KINDS))
            b.scaffolds.append(s)
        # right end
        es2 = end_style or rng.choice(["leaf", "leaf", "leafhap", "bubble", "hapleaf"])
        if es2 == "hapleaf":
            h, rk = b.hap()
            b.link(s, "+", h, rng.choice("+-"), rk)
        elif es2 == "leafhap":
            t1 = b.ref()
            h, rk = b.hap()
            b.link(s, "+", t1, "+"); b.link(s, "+", h, "+", rk); b.link(h, "+", t1, "+", rk)
        elif es2 == "bubble":
            b.bubble(s, rng.choice(["snp", "ins", "multi"]))
        else:
            t1 = b.ref()
            b.link(s, "+", t1, "+")
        d = defects.get(ci)
        if d == "tip":  # branching tip: a haplotype node hanging off a scaffold node
            h, rk = b.hap()
            b.link(rng.choice(b.scaffolds), rng.choice("+-"), h, rng.choice("+-"), rk)
        elif d == "tip2":  # two-node haplotype tip (a haplotype articulation point)
            h, rk = b.hap(); h2, _ = b.hap()
            b.link(rng.choice(b.scaffolds), "+", h, "+", rk); b.link(h, "+", h2, "+", rk)
        elif d in ("cycle3", "cycle3_inner"):
            # three scaffold nodes on one cycle: extra tips on three nodes of a cycle make all three
            # articulation points of one block
            a = b.ref(); c = b.ref(); e = b.ref()
            b.link(s, "+", a, "+"); b.link(a, "+", c, "+"); b.link(c, "+", e, "+"); b.link(a, "+", e, "+", 5)
            if d == "cycle3_inner":
                h, rk = b.hap()
                b.link(a, "+", h, "+", rk); b.link(h, "+", e, "+", rk)
            for x in (a, c, e):
                t = b.ref()
                b.link(x, "+", t, "+")
        entry = {"name": name, "nodes": b.nodes, "defect": d}
        if d is None and len(b.scaffolds) >= 2 and rng.random() < contig_major:
            # one assembly contig that has more segments in this chromosome than the reference itself
            # (several multi-segment alleles between consecutive scaffold nodes), aligned to the reverse
            # strand so that its offsets fall along the reference: the component is *named* after it
            # (majority vote over SN) while the chain is still the reference's
            cname = rng.choice(["HG00733#1#JAHEPQ010000097.1", "NA21309#2#JAHEPC010000450.1", "h1tg000007l", "asm5_ctg_22"]) + ("" if ci == 0 else f"_{ci}")
            cursor = 5_000_000 + rng.randint(0, 1000)
            rank = 1 + len(haps) + ci
            n_ref = sum(1 for n in b.nodes if g.nodes[n].rank == 0)
            n_other = len(b.nodes) - n_ref
            added = 0
            pairs = list(zip(b.scaffolds, b.scaffolds[1:]))
            k = 0
            while added < n_ref + n_other + 2:
                u, v = pairs[k % len(pairs)]
                k += 1
                prev, prev_o = u, "+"
                for _ in range(rng.randint(2, 4)):
                    ln = rng.randint(1, len_hi)
                    cursor -= ln + rng.randint(0, 40)
                    nid = g.add_node(ids.new(hap=True), cname, cursor, rand_seq(rng, ln), rank)
                    b.nodes.append(nid)
                    added += 1
                    b.link(prev, prev_o, nid, "-", rank)
                    prev, prev_o = nid, "-"
                b.link(prev, prev_o, v, "+", rank)
            entry["ref"] = name
            entry["name"] = cname
        g.chroms.append(entry)
    for k in range(singletons):  # a chromosome that is one isolated segment without any link (chrM-like)
        nm = ["chrMT", "chrUn_1", "chrEBV"][k % 3]
        nid = g.add_node(ids.new(), nm, 0, rand_seq(rng, rng.randint(1, len_hi)), 0)
        g.chroms.append({"name": nm, "nodes": [nid], "defect": None})
    if "joined" in defects.values():
        for ci, d in defects.items():
            if d == "joined" and ci + 1 < len(builders):
                b, b2 = builders[ci], builders[ci + 1]
                h, rk = b.hap()
                b.link(rng.choice(b.scaffolds), "+", h, "+", rk)
                b2.link(h, "+", rng.choice(b2.scaffolds), "+", rk)
    g.ref_order = {c.get("ref", c["name"]): [n for n in c["nodes"] if g.nodes[n].rank == 0] for c in g.chroms}
    return g


def reference_order(g, comp_nodes, contig):
    """Reference BO/NO structure of one component from the independent block-cut decomposition.
    Returns dict(chain=<elements in ascending reference direction or None>, reason, artic, orient)"""
    adj_all = {}
    for n in comp_nodes:
        adj_all[n] = set()
    for a, _oa, b, _ob, _ov, _t in g.links:
        if a in adj_all and b in adj_all and a != b:
            adj_all[a].add(b)
            adj_all[b].add(a)
    res = bcc.chain(adj_all)
    out = {"artic": res["artic"], "reason": res.get("reason"), "chain": None, "orient": None}
    if res["elements"] is None:
        return out
    if any(g.nodes[a].rank != 0 or g.nodes[a].contig != contig for a in res["artic"]):
        out["reason"] = "articulation_point_not_on_reference_contig"
        return out
    els = res["elements"]
    sc = [g.nodes[x].so for t, x in els if t == "s"]
    orient = None
    if len(sc) >= 2:
        orient = "fwd" if sc[0] < sc[-1] else "rev"
    else:
        def minso(el):
            if el[0] == "s":
                return g.nodes[el[1]].so
            v = [g.nodes[n].so for n in el[1] if g.nodes[n].rank == 0 and g.nodes[n].contig == contig]
            return min(v) if v else None
        # "in order of increasing reference offset": the chain elements that have a reference offset
        # at all (an end made of non-reference nodes only has none) decide the direction
        cs = [c for c in map(minso, els) if c is not None]
        if len(cs) >= 2 and cs[0] != cs[-1]:
            orient = "fwd" if cs[0] < cs[-1] else "rev"
    if orient == "rev":
        els = els[::-1]
    out["chain"] = els
    out["orient"] = orient  # None: neither rule decides, both directions acceptable
    return out


def assign_bo_no(chain_elements, bo_start=0):
    """BO/NO per the property: BO increases by one per chain element, scaffold NO = 0, bubble
    nodes NO = 1..M in lexicographic id order."""
    tags = {}
    bo = bo_start
    for t, x in chain_elements:
        if t == "s":
            tags[x] = (bo, 0)
        else:
            for i, n in enumerate(sorted(x)):
                tags[n] = (bo, i + 1)
        bo += 1
    return tags, bo
