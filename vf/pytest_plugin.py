"""Run the repository's own test-suite with the context-free contracts attached:
    cd /repo && PYTHONPATH=/verif:/verif/.deps /venv/bin/python -m pytest -q -p vf.pytest_plugin
A contract that fires there is either too strict or a defect the tests do not assert."""

import json
import os


def pytest_configure(config):
    from vf import monitor as M
    from vf.props import conv_common, c15, c07, c19, sort_common
    from gaftools import conversion, utils, gfa, gaf
    M.attach(conversion, "merge_nodes", post=conv_common.post_merge_nodes)
    M.attach(utils, "search_intervals", post=conv_common.post_search_intervals)
    M.attach(utils, "reverse_cigar", post=conv_common.post_reverse_cigar)
    M.attach(gfa.GFA, "biccs", post=c15.post_biccs)
    M.attach(gfa.GFA, "all_components", post=c15.post_all_components)
    M.attach(gfa.GFA, "dfs", post=c15.post_dfs)
    M.attach(gfa.GFA, "add_edge", post=c07.post_add_edge)
    M.attach(gaf.GAF, "parse_gaf_line", post=c19.post_parse_gaf_line)
    sort_common.install_sort_contracts()


def pytest_sessionfinish(session, exitstatus):
    from vf import monitor as M
    out = {"contract_evaluations": {k: v for k, v in M.COUNTS.items()}, "violations": M.VIOLS[:50]}
    path = os.environ.get("VF_PLUGIN_OUT", "/dev/stdout")
    with open(path, "w") as f:
        f.write("\nVF-CONTRACTS " + json.dumps(out, default=str)[:6000] + "\n")
