"""Supervisor:  ./check <ID> <quick|thorough> | replay <path> | setup | selftest

Launches shard processes (fresh interpreters, own session, hard-killed on watchdog), merges their
records, classifies violations against known_findings.json, writes /verif/evidence/<ID>.json and
prints VIOLATION / KNOWN-FINDING / INCONCLUSIVE lines.   exit 0 held, 1 violation, 2 inconclusive.
"""

import collections
import importlib
import json
import os
import shutil
import signal
import subprocess
import sys
import tempfile
import time

from vf import util
from vf import findings as F

NPROC = min(16, os.cpu_count() or 4)
_builtin_print = print


def print(*a, **k):  # noqa: A001 - a reader that closes the pipe early must not change the exit status
    try:
        _builtin_print(*a, **k)
        sys.stdout.flush()
    except BrokenPipeError:
        try:
            os.dup2(os.open(os.devnull, os.O_WRONLY), sys.stdout.fileno())
        except OSError:
            pass

EVID_DIR = os.environ.get("VERIF_EVIDENCE_DIR") or os.path.join(util.VERIF, "evidence")
REPLAY_DIR = os.environ.get("VERIF_REPLAY_DIR") or os.path.join(util.VERIF, "replays")


def ensure_deps():
    marker = os.path.join(util.DEPS, "icontract", "__init__.py")
    if os.path.exists(marker):
        return True
    os.makedirs(util.DEPS, exist_ok=True)
    cmd = [util.PY, "-m", "pip", "install", "--quiet", "--no-index", "--find-links", util.WHEELS,
           "--target", util.DEPS, "icontract"]
    r = subprocess.run(cmd, capture_output=True, text=True)
    if r.returncode != 0 or not os.path.exists(marker):
        print("setup: could not install icontract from the offline wheelhouse:\n" + r.stdout + r.stderr)
        return False
    # the directory did not exist when this interpreter started: forget the negative finder cache
    sys.path_importer_cache.pop(util.DEPS, None)
    importlib.invalidate_caches()
    if util.DEPS not in sys.path:
        sys.path.append(util.DEPS)
    return True


def child_env(hashseed):
    env = dict(os.environ)
    env["PYTHONPATH"] = util.VERIF + os.pathsep + util.DEPS
    env["PYTHONDONTWRITEBYTECODE"] = "1"
    env["PYTHONHASHSEED"] = str(hashseed)
    env["VERIF_REPO"] = util.REPO
    env[util.GUARD] = "1"
    env.setdefault("OMP_NUM_THREADS", "1")
    return env


def kill_group(p):
    try:
        os.killpg(p.pid, signal.SIGKILL)
    except (ProcessLookupError, PermissionError):
        pass


def run_shards(prop, tier, seed, plan, only=None, only_hashseed=None):
    nshards = 1 if only is not None else min(plan.get("shards", NPROC), NPROC * 4)
    par = min(plan.get("parallel", NPROC), NPROC)
    watchdog = max(plan.get("watchdog_s", 0), plan.get("shard_budget_s", 600) + 900)
    tmp = tempfile.mkdtemp(prefix="gaftools-vf-run-")
    pending = list(range(nshards))
    running = {}
    records = []
    shard_status = {}
    hashseeds = {}
    fixed = plan.get("hashseeds")
    if only is not None and only_hashseed is not None:
        fixed = [only_hashseed]  # replay under the PYTHONHASHSEED of the shard that found the case
    try:
        while pending or running:
            while pending and len(running) < par:
                s = pending.pop(0)
                if fixed:
                    hs = fixed[s % len(fixed)]
                else:
                    hs = 0 if s == 0 else (seed * 7919 + s * 104729 + 1) % 4294967295
                hashseeds[s] = hs
                out = os.path.join(tmp, f"shard{s}.jsonl")
                cmd = [util.PY, "-B", "-m", "vf.shard", prop, tier, str(seed), str(s), str(nshards), out,
                       "--keep", os.path.join(REPLAY_DIR, prop)]
                if only is not None:
                    cmd += ["--only", str(only)]
                logf = open(os.path.join(tmp, f"shard{s}.log"), "w")
                p = subprocess.Popen(cmd, cwd=util.VERIF, env=child_env(hs), stdout=logf,
                                     stderr=subprocess.STDOUT, start_new_session=True)
                running[s] = (p, time.monotonic(), out, logf)
            time.sleep(0.05)
            for s, (p, t0, out, logf) in list(running.items()):
                rc = p.poll()
                if rc is None and time.monotonic() - t0 > watchdog:
                    kill_group(p)
                    p.wait()
                    rc = "watchdog"
                if rc is not None:
                    kill_group(p)  # stray grandchildren
                    logf.close()
                    shard_status[s] = rc
                    del running[s]
                    if os.path.exists(out):
                        with open(out) as f:
                            for line in f:
                                try:
                                    records.append(json.loads(line))
                                except ValueError:
                                    pass
                    if rc != 0:
                        with open(os.path.join(tmp, f"shard{s}.log")) as f:
                            tail = f.read()[-3000:]
                        records.append({"type": "shard_died", "shard": s, "rc": rc, "log": tail})
    finally:
        for s, (p, *_rest) in running.items():
            kill_group(p)
        shutil.rmtree(tmp, ignore_errors=True)
    return records, shard_status, sorted(set(hashseeds.values()))


def merge(prop, tier, seed, P, records, hashseeds, wall):
    cases = [r for r in records if r["type"] == "case"]
    summaries = [r for r in records if r["type"] == "summary"]
    problems = [r for r in records if r["type"] in ("harness_error", "shard_died")]
    counts = collections.Counter()
    probes = {}
    extra = []
    truncated = 0
    for s in summaries:
        counts.update(s["counts"])
        for k, v in s["probes"].items():
            if probes.get(k) != "attached":
                probes[k] = v
        if s.get("extra"):
            extra.append(s["extra"])
        truncated += bool(s.get("truncated"))
    situations = collections.Counter()
    outcomes = collections.Counter()
    sigs = set()
    evals = 0
    samples = []
    violations = []
    for c in sorted(cases, key=lambda c: c["index"]):
        evals += c.get("evals") or 1
        situations.update(c.get("situations") or {})
        outcomes.update(c.get("outcomes") or {})
        if c.get("sigs"):
            sigs.update(c["sigs"])
        elif c.get("nontrivial") and c.get("sig"):
            sigs.add(c["sig"])
        if c.get("sample") is not None and len(samples) < 4:
            samples.append(c["sample"])
        violations.extend(c.get("violations") or [])
    return dict(cases=cases, counts=counts, probes=probes, situations=situations,
                outcomes=outcomes, distinct=len(sigs), evals=evals, samples=samples,
                violations=violations, problems=problems, extra=extra, truncated=truncated)


def required_missing(P, m, tier):
    req = P.required(tier) if hasattr(P, "required") else []
    missing = []
    allc = collections.Counter(m["counts"])
    allc.update(m["situations"])
    for name in req:
        if allc.get(name, 0) <= 0:
            if name.startswith("post:") and allc.get("hook_missing:" + name[5:], 0) > 0:
                continue  # contract on an optional internal helper that no longer exists
            if m["probes"].get(name) == "unattached":
                continue  # coverage counter tied to a source line that no longer exists
            alt = getattr(P, "OPTIONAL_IF", {}).get(name)
            if alt and allc.get(alt, 0) > 0:
                continue  # an additional mechanism-level monitor whose source anchor is gone; the boundary oracle decides
            missing.append(name)
    for k, v in m["probes"].items():
        if v == "unattached" and k in getattr(P, "REQUIRED_PROBES", ()):
            missing.append("probe:" + k)
    return missing


def write_evidence(prop, tier, seed, P, m, hashseeds, wall, known_hit, n_new, inconclusive):
    cov = {
        "evaluations": int(m["evals"]),
        "distinct_nontrivial": int(m["distinct"]),
        "rule": P.RULE,
        "samples": m["samples"] or [{"note": "no sample recorded"}],
        "cases": len(m["cases"]),
        "situations": dict(sorted(m["situations"].items())),
        "contract_evaluations": {k: v for k, v in sorted(m["counts"].items())},
        "probes": m["probes"],
        "outcomes": dict(m["outcomes"]),
        "hash_seeds": hashseeds,
        "known_findings_hit": known_hit,
        "inconclusive": inconclusive,
        "shards_truncated_by_time_cap": m["truncated"],
    }
    if m["extra"]:
        cov["extra"] = m["extra"][:4]
    if getattr(P, "EXHAUSTIVE", None):
        ex = P.EXHAUSTIVE(tier, m) if callable(P.EXHAUSTIVE) else P.EXHAUSTIVE
        if ex:
            cov["exhaustive"] = True
            cov["exhaustive_space"] = ex if isinstance(ex, str) else "see rule"
    ev = {
        "property_id": prop, "tier": tier, "seed": int(seed), "level": P.LEVEL,
        "coverage": cov, "assumptions": list(P.ASSUMPTIONS), "wall_s": round(wall, 2),
        "violations": int(n_new),
    }
    os.makedirs(EVID_DIR, exist_ok=True)
    path = os.path.join(EVID_DIR, f"{prop}.json")
    with open(path, "w") as f:
        json.dump(ev, f, indent=1, default=str)
    return path


def check(prop, tier, only=None, quiet=False, only_hashseed=None):
    t0 = time.monotonic()
    seed = int(os.environ.get("VERIF_SEED", "0") or 0)
    if not ensure_deps():
        print(f"INCONCLUSIVE property={prop} setup failed")
        return 2
    P = importlib.import_module(f"vf.props.{prop.lower()}")
    plan = P.plan(tier)
    ev_path = os.path.join(EVID_DIR, f"{prop}.json")
    if os.path.exists(ev_path) and only is None:
        os.remove(ev_path)
    if only is None:
        shutil.rmtree(os.path.join(REPLAY_DIR, prop), ignore_errors=True)
    records, status, hashseeds = run_shards(prop, tier, seed, plan, only=only, only_hashseed=only_hashseed)
    wall = time.monotonic() - t0
    m = merge(prop, tier, seed, P, records, hashseeds, wall)
    known = F.load()
    new, known_hit = F.classify(prop, m["violations"], known)
    inconclusive = []
    for pr in m["problems"]:
        inconclusive.append(f"shard {pr.get('shard')} {pr['type']}: "
                            f"{(pr.get('error') or pr.get('rc'))}")
    if only is None:
        for name in required_missing(P, m, tier):
            inconclusive.append(f"deciding monitor never reached: {name}")
        if not m["cases"]:
            inconclusive.append("no case executed")
        if hasattr(P, "inconclusive_reasons"):
            inconclusive.extend(P.inconclusive_reasons(m))
    if only is None:
        write_evidence(prop, tier, seed, P, m, hashseeds, wall, sorted(known_hit), len(new),
                       inconclusive)
    print(f"[{prop} {tier} seed={seed}] cases={len(m['cases'])} evaluations={m['evals']} "
          f"distinct_nontrivial={m['distinct']} wall={wall:.1f}s hashseeds={len(hashseeds)}")
    if not quiet:
        sit = ", ".join(f"{k}={v}" for k, v in sorted(m["situations"].items()))
        print(f"  situations: {sit}")
        con = ", ".join(f"{k}={v}" for k, v in sorted(m["counts"].items()))
        print(f"  monitors:   {con}")
        if m["outcomes"]:
            print("  outcomes:   " + ", ".join(f"{k}={v}" for k, v in sorted(m["outcomes"].items())))
    for key in sorted(known_hit):
        ent = known_hit[key]
        print(f"KNOWN-FINDING: property={prop} {ent['what']} [{key}; matched {ent['n']} case(s)]")
    seen_kinds = collections.Counter()
    for v in new:
        seen_kinds[v["kind"]] += 1
        if seen_kinds[v["kind"]] <= 3:
            print(f"VIOLATION property={prop} replay={v.get('replay') or 'n/a'}")
            print(f"    kind={v['kind']} index={v.get('index')} :: {util.short(v.get('msg', ''), 600)}")
    if new:
        print(f"  {len(new)} violating observation(s) of {len(seen_kinds)} kind(s): "
              + ", ".join(f"{k}×{n}" for k, n in seen_kinds.most_common()))
        return 1
    if inconclusive:
        for i in inconclusive[:10]:
            print(f"INCONCLUSIVE property={prop} {i}")
        for pr in m["problems"][:2]:
            print(util.short(pr.get("tb") or pr.get("log") or "", 3000))
        return 2
    return 0


def replay(path):
    with open(os.path.join(path, "case.json")) as f:
        info = json.load(f)
    os.environ["VERIF_SEED"] = str(info["seed"])
    print(f"replaying {info['prop']} tier={info['tier']} seed={info['seed']} index={info['index']}")
    hs = info.get("hashseed")
    return check(info["prop"], info["tier"], only=info["index"], only_hashseed=hs if str(hs).isdigit() else None)


def sweep_stale_shm():
    """temporary directories on /dev/shm left behind by shards that were killed (see vf/cli.py)"""
    import glob
    import shutil
    for d in glob.glob("/dev/shm/vf-tmp-*"):
        try:
            pid = int(os.path.basename(d).split("-")[2])
        except (IndexError, ValueError):
            continue
        if not os.path.exists(f"/proc/{pid}"):
            shutil.rmtree(d, ignore_errors=True)


def main(argv):
    if not argv:
        print(__doc__)
        return 2
    sweep_stale_shm()
    if argv[0] == "setup":
        ok = ensure_deps()
        if not ok:
            return 1
        from vf import selftest
        return selftest.main()
    if argv[0] == "selftest":
        ensure_deps()
        from vf import selftest
        return selftest.main()
    if argv[0] == "replay":
        return replay(argv[1])
    prop = argv[0].upper()
    tier = argv[1] if len(argv) > 1 else os.environ.get("VERIF_TIER", "quick")
    return check(prop, tier)


if __name__ == "__main__":
    try:
        rc = main(sys.argv[1:])
    except Exception:  # noqa: BLE001 - a crash of the supervisor is never a verdict on gaftools
        import traceback
        print("INCONCLUSIVE property=%s supervisor crashed:\n%s" % (sys.argv[1] if len(sys.argv) > 1 else "?", traceback.format_exc()))
        rc = 2
    sys.exit(rc)
