"""Monitors attached to the real code from outside the repository:

* contracts  – icontract pre/post-conditions (with OLD snapshots) on the real function objects.
               Conditions *record and return True*: a refuted condition is appended to VIOLS with
               the arguments and the Python stack of the real call, the observed behaviour is not
               disturbed (important on the worker side of realign and for "never fails" clauses).
               Every condition counts its evaluations; zero evaluations => inconclusive.
* probes     – sys.monitoring LINE events on specific code objects only, attached by source text.
               Used for situation coverage, logical step budgets (non-termination decided on steps,
               never on wall clock) and reading local state at a line.
"""

import collections
import inspect
import sys
import traceback

from vf.util import put_repo_on_path

put_repo_on_path()
import icontract  # noqa: E402  (from /verif/.deps)

COUNTS = collections.Counter()  # contract evaluations and situation counters
VIOLS = []  # violations recorded by contracts during the current case
CTX = {}  # per-case ground truth handed to the contracts by the harness


class ContractBroken(AssertionError):
    pass


def hit(name, n=1):
    COUNTS[name] += n


def record(kind, msg, **witness):
    COUNTS["recorded:" + kind] += 1
    if sum(1 for v in VIOLS if v["kind"] == kind) >= 5:  # keep the first few witnesses per kind and case
        return
    stack = [f"{f.filename.split('/gaftools/')[-1]}:{f.lineno}:{f.name}"
             for f in traceback.extract_stack()[:-1] if "/gaftools/" in f.filename]
    VIOLS.append({"kind": kind, "msg": msg, "witness": witness, "stack": stack[-6:]})


def drain():
    v = list(VIOLS)
    del VIOLS[:]
    return v


def _rebind(owners, attr, new, old):
    n = 0
    for owner in owners:
        if getattr(owner, attr, None) is old:
            setattr(owner, attr, new)
            n += 1
    return n


def attach(owners, attr, post=None, pre=None, snapshots=(), optional=False):
    """Wrap <owner>.<attr> (a function or a plain method on a class) with icontract decorators and
    rebind it in every owner through which the code under test reaches it.
    post / pre are *named* condition functions whose parameters match the wrapped function's
    (plus result / OLD).  snapshots = [(capture_fn, name)].  Conditions must return True after
    calling record() themselves; error= is given so that a bug in a condition is not mistaken."""
    if not isinstance(owners, (list, tuple)):
        owners = [owners]
    if optional and not hasattr(owners[0], attr):
        # an internal helper (not part of the observed boundary) that a refactoring removed or renamed:
        # its contract is lost, the boundary oracles are not; recorded so that the evidence shows it
        COUNTS[f"hook_missing:{attr}"] += 1
        return None
    old = getattr(owners[0], attr)
    f = old
    if post is not None:
        f = icontract.ensure(post, error=ContractBroken)(f)
    for cap, name in snapshots:
        f = icontract.snapshot(cap, name=name)(f)
    if pre is not None:
        f = icontract.require(pre, error=ContractBroken)(f)
    n = _rebind(owners, attr, f, old)
    COUNTS[f"attached:{attr}"] += n
    return f


# ------------------------------------------------------------------------------------------------
# probes


class Probes:
    TOOL = 4

    def __init__(self):
        self.mon = sys.monitoring
        self.by_code = {}  # code -> {line: [callbacks]}
        self.starts = {}  # code -> [callbacks at function entry]
        self.active = False
        self.status = {}

    def _ensure(self):
        if not self.active:
            try:
                self.mon.use_tool_id(self.TOOL, "vf")
            except ValueError:
                pass
            self.mon.register_callback(self.TOOL, self.mon.events.LINE, self._on_line)
            self.mon.register_callback(self.TOOL, self.mon.events.PY_START, self._on_start)
            self.active = True

    def _on_start(self, code, offset):
        for cb in self.starts.get(code, ()):
            cb(sys._getframe(1))
        return None

    def _on_line(self, code, line):
        cbs = self.by_code.get(code)
        if cbs is None:
            return self.mon.DISABLE
        for cb in cbs.get(line, ()):  # specific line callbacks
            cb(sys._getframe(1))
        for cb in cbs.get(0, ()):  # every-line callbacks (step budgets)
            cb(sys._getframe(1))
        return None

    def _watch(self, func):
        code = func.__code__
        if code not in self.by_code:
            self.by_code[code] = {}
            self._ensure()
            self.mon.set_local_events(self.TOOL, code, self.mon.events.LINE)
        return code

    def at_text(self, func, text, cb, name, occurrence=0):
        """Call cb(frame) whenever the source line of func containing `text` starts executing."""
        func = inspect.unwrap(func)
        try:
            lines, first = inspect.getsourcelines(func)
        except (OSError, TypeError):
            self.status[name] = "unattached"
            return False
        found = [first + i for i, l in enumerate(lines) if text in l]
        if len(found) <= occurrence:
            self.status[name] = "unattached"
            return False
        code = self._watch(func)
        self.by_code[code].setdefault(found[occurrence], []).append(cb)
        self.status[name] = "attached"
        return True

    def count_text(self, func, text, name, occurrence=0):
        def cb(frame, name=name):
            COUNTS[name] += 1

        return self.at_text(func, text, cb, name, occurrence)

    def every_line(self, func, cb, name, on_start=None):
        func = inspect.unwrap(func)
        code = self._watch(func)
        self.by_code[code].setdefault(0, []).append(cb)
        if on_start is not None:
            self.starts.setdefault(code, []).append(on_start)
            self.mon.set_local_events(self.TOOL, code, self.mon.events.LINE | self.mon.events.PY_START)
        self.status[name] = "attached"
        return True


PROBES = Probes()
