"""Independent GAF reader/spelling from the GAF specification: 12 tab-separated mandatory columns,
every further column is TAG:TYPE:VALUE split at the first two ':' (no regex heuristics).
Also: spelling of stable/unstable paths and the read-oriented target T(rec)."""

import re

from vf.ref.gfa import revcomp, parse_path


class Rec:
    __slots__ = ("qname", "qlen", "qs", "qe", "strand", "path", "plen", "ps", "pe", "matches",
                 "block", "mapq", "fields", "raw")

    def __init__(self, line):
        self.raw = line
        c = line.split("\t")
        if len(c) < 12:
            raise ValueError(f"GAF line with {len(c)} columns")
        self.qname = c[0]
        self.qlen, self.qs, self.qe = int(c[1]), int(c[2]), int(c[3])
        self.strand = c[4]
        self.path = c[5]
        self.plen, self.ps, self.pe = int(c[6]), int(c[7]), int(c[8])
        self.matches, self.block, self.mapq = int(c[9]), int(c[10]), int(c[11])
        self.fields = c[12:]

    def mandatory(self):
        return self.raw.split("\t")[:12]

    def tag(self, name):
        for f in self.fields:
            p = f.split(":", 2)
            if len(p) == 3 and p[0] == name:
                return p[2]
        return None

    def cigar(self):
        return self.tag("cg")

    def fields_without(self, *names):
        return [f for f in self.fields if f.split(":", 1)[0] not in names]


def parse_file_text(text):
    return [Rec(l) for l in text.split("\n") if l != ""]


def well_formed_field(f):
    p = f.split(":", 2)
    return len(p) == 3 and re.fullmatch(r"[A-Za-z][A-Za-z0-9]", p[0]) is not None and p[1] in "AifZHB" and len(p[1]) == 1


CIG = re.compile(r"(\d+)([=XIDMNSHP])")


def cigar_ops(cg):
    ops = [(int(n), o) for n, o in CIG.findall(cg)]
    if "".join(f"{n}{o}" for n, o in ops) != cg:
        return None
    return ops


def cigar_reversed(cg):
    ops = cigar_ops(cg)
    return None if ops is None else "".join(f"{n}{o}" for n, o in reversed(ops))


# ---- spelling -----------------------------------------------------------------------------

class Coords:
    """Ground truth for spelling: node sequences and per-contig base maps."""

    def __init__(self, g):
        self.g = g
        self.seqs = g.seqs()
        self.by_contig = {}
        for n in g.nodes.values():
            self.by_contig.setdefault(n.contig, []).append(n)
        for v in self.by_contig.values():
            v.sort(key=lambda n: n.so)

    def contig_slice(self, contig, a, b):
        """bases [a,b) of a contig, assembled from its segments; None if a base is not covered"""
        if a > b:
            return None
        out = []
        pos = a
        for n in self.by_contig.get(contig, ()):
            if n.end <= pos:
                continue
            if n.so > pos:
                break
            take = min(b, n.end) - pos
            if take <= 0:
                break
            out.append(n.seq[pos - n.so:pos - n.so + take])
            pos += take
            if pos >= b:
                break
        if pos < b:
            return None
        return "".join(out)

    def loci(self, contig, a, b):
        return [(contig, p) for p in range(a, b)]

    def spell_path(self, path):
        """Returns (spelled string, locus list) of a whole path column, or (None, reason).
        A locus is (contig, position, orientation) per base."""
        if ">" in path or "<" in path:
            steps = parse_path(path)
            if steps is None:
                return None, "malformed path"
            seq, loci = [], []
            for name, o in steps:
                if ":" in name:  # stable interval  contig:a-b
                    contig, _, iv = name.rpartition(":")
                    m = re.fullmatch(r"(\d+)-(\d+)", iv)
                    if not m:
                        return None, f"bad interval {name}"
                    a, b = int(m.group(1)), int(m.group(2))
                    s = self.contig_slice(contig, a, b)
                    if s is None:
                        return None, f"interval {name} not covered by segments"
                    lo = [(contig, p, "+") for p in range(a, b)]
                elif name in self.g.nodes:
                    nd = self.g.nodes[name]
                    s = nd.seq
                    lo = [(nd.contig, p, "+") for p in range(nd.so, nd.end)]
                else:
                    return None, f"unknown node {name}"
                if o == "<":
                    s = revcomp(s)
                    lo = [(c, p, "-") for c, p, _ in reversed(lo)]
                seq.append(s)
                loci += lo
            return "".join(seq), loci
        # bare contig name
        if path not in self.by_contig:
            return None, f"unknown contig {path}"
        ns = self.by_contig[path]
        if self.g.contigs.get(path) != 0:
            return None, f"bare contig {path} is not a rank-0 contig"
        s = "".join(n.seq for n in ns)
        return s, [(path, p, "+") for p in range(len(s))]

    def target(self, rec):
        """Read-oriented target bases designated by the record: (string, loci) or (None, reason)."""
        s, loci = self.spell_path(rec.path)
        if s is None:
            return None, loci
        if not (0 <= rec.ps <= rec.pe <= len(s)):
            return None, f"offsets {rec.ps}-{rec.pe} outside path of length {len(s)}"
        t = s[rec.ps:rec.pe]
        lo = loci[rec.ps:rec.pe]
        if rec.strand == "-":
            t = revcomp(t)
            lo = [(c, p, "-" if o == "+" else "+") for c, p, o in reversed(lo)]
        elif rec.strand != "+":
            return None, f"bad strand {rec.strand!r}"
        return t, lo

    def path_total(self, path):
        s, _ = self.spell_path(path)
        return None if s is None else len(s)


# ---- reference unstable -> stable conversion (used to *generate* stable inputs) -----------------

def ref_to_stable(g, line):
    """Independent conversion of one '+'-strand unstable record into gaftools' stable form:
    touching same-contig same-orientation intervals merged; a single interval on a rank-0 contig
    collapses to the bare contig name (strand '-' and reversed CIGAR when traversed backwards)."""
    r = Rec(line)
    steps = parse_path(r.path)
    ivs = []
    for n, o in steps:
        nd = g.nodes[n]
        if ivs and ivs[-1][0] == nd.contig and ivs[-1][3] == o and (
                (o == ">" and ivs[-1][2] == nd.so) or (o == "<" and ivs[-1][1] == nd.end)):
            if o == ">":
                ivs[-1][2] = nd.end
            else:
                ivs[-1][1] = nd.so
        else:
            ivs.append([nd.contig, nd.so, nd.end, o])
    cols = line.split("\t")
    if len(ivs) == 1 and g.contigs[ivs[0][0]] == 0:
        c, a, b, o = ivs[0]
        L = r.plen
        cols[5] = c
        cols[6] = str(g.contig_len(c))
        if o == ">":
            cols[7], cols[8] = str(a + r.ps), str(a + r.pe)
        else:
            cols[4] = "-"
            cols[7], cols[8] = str(a + L - r.pe), str(a + L - r.ps)
            for i in range(12, len(cols)):
                if cols[i].startswith("cg:Z:"):
                    cols[i] = "cg:Z:" + cigar_reversed(cols[i][5:])
    else:
        cols[5] = "".join(f"{o}{c}:{a}-{b}" for c, a, b, o in ivs)
    return "\t".join(cols)


def traversed_nodes(g, coords, line):
    """Set of node ids a record traverses, per the property's definition: unstable -> the nodes of
    its path; stable -> the nodes whose stable interval overlaps one of its intervals, or (bare
    contig) its aligned contig span."""
    r = Rec(line)
    if ">" in r.path or "<" in r.path:
        steps = parse_path(r.path)
        if all(":" not in n for n, _o in steps):
            return {n for n, _o in steps}
        out = set()
        for name, _o in steps:
            contig, _, iv = name.rpartition(":")
            a, b = (int(x) for x in iv.split("-"))
            for nd in coords.by_contig.get(contig, ()):
                if nd.so < b and a < nd.end:
                    out.add(nd.id)
        return out
    return {nd.id for nd in coords.by_contig.get(r.path, ()) if nd.so < r.pe and r.ps < nd.end}
