"""Independent GFA reader written from the GFA1/rGFA specification (not from gaftools' code).

S lines -> id -> (sequence, ordered list of TAG:TYPE:VALUE strings)
L lines -> (a, oa, b, ob, overlap, tags); canonical undirected link = sorted pair of segment *ends*
           (`+` in the left column leaves through the END of a, `-` through its START; `+` in the
           right column enters through the START of b, `-` through its END).
Oriented steps use GAF notation: '>' forward, '<' reverse.
"""

import gzip


def open_any(path):
    with open(path, "rb") as f:
        magic = f.read(2)
    if magic == b"\x1f\x8b":
        return gzip.open(path, "rt")
    return open(path, "r")


class RefGFA:
    def __init__(self):
        self.segments = {}  # id -> [seq, [tag strings]]  (dict keeps file order)
        self.links = []  # (a, oa, b, ob, overlap_string, [tag strings])
        self.line_kinds = []  # first column of every line, in order
        self.dup_segments = []

    # -- tags -------------------------------------------------------------------------------
    @staticmethod
    def split_tag(t):
        p = t.split(":", 2)
        return (p[0], p[1], p[2]) if len(p) == 3 else (t, "", "")

    def tag(self, seg, name, default=None):
        for t in self.segments[seg][1]:
            k, _ty, val = self.split_tag(t)
            if k == name:
                return val
        return default

    def tagdict(self, seg):
        d = {}
        for t in self.segments[seg][1]:
            k, ty, val = self.split_tag(t)
            d.setdefault(k, (ty, val))
        return d

    # -- topology ---------------------------------------------------------------------------
    @staticmethod
    def link_ends(a, oa, b, ob):
        ea = (a, "e" if oa == "+" else "s")
        eb = (b, "s" if ob == "+" else "e")
        return tuple(sorted([ea, eb]))

    def canon_links(self, with_tags=True, nodes=None):
        """Multiset (sorted list) of canonical links restricted to `nodes`."""
        out = []
        for a, oa, b, ob, ov, tags in self.links:
            if nodes is not None and (a not in nodes or b not in nodes):
                continue
            out.append((self.link_ends(a, oa, b, ob), ov, tuple(tags) if with_tags else ()))
        return sorted(out)

    def step_pairs(self):
        """Valid oriented step pairs ((a, '>'|'<'), (b, '>'|'<')) from the L-line semantics:
        `L a oa b ob` permits (oa a)(ob b) and its reverse complement (¬ob b)(¬oa a)."""
        fw = {"+": ">", "-": "<"}
        rv = {"+": "<", "-": ">"}
        pairs = set()
        for a, oa, b, ob, _ov, _t in self.links:
            if a in self.segments and b in self.segments:
                pairs.add(((a, fw[oa]), (b, fw[ob])))
                pairs.add(((b, rv[ob]), (a, rv[oa])))
        return pairs

    def simple_adj(self):
        """Undirected simple adjacency (self-links dropped, parallel links merged)."""
        adj = {s: set() for s in self.segments}
        for a, _oa, b, _ob, _ov, _t in self.links:
            if a in adj and b in adj and a != b:
                adj[a].add(b)
                adj[b].add(a)
        return adj


def parse_lines(lines):
    g = RefGFA()
    for raw in lines:
        line = raw.rstrip("\n").rstrip("\r")
        if not line:
            continue
        cols = line.split("\t")
        g.line_kinds.append(cols[0])
        if cols[0] == "S":
            if cols[1] in g.segments:
                g.dup_segments.append(cols[1])
                continue
            g.segments[cols[1]] = [cols[2], cols[3:]]
        elif cols[0] == "L":
            g.links.append((cols[1], cols[2], cols[3], cols[4], cols[5], cols[6:]))
    return g


def read(path):
    with open_any(path) as f:
        return parse_lines(f)


COMP = str.maketrans("ACGTacgtNn", "TGCAtgcaNn")


def revcomp(s):
    return s[::-1].translate(COMP)


def parse_path(p):
    """'>a<b>c' -> [('a','>'),('b','<'),('c','>')] ; None if malformed."""
    if not p or p[0] not in "<>":
        return None
    steps = []
    cur = None
    name = []
    for ch in p:
        if ch in "<>":
            if cur is not None:
                if not name:
                    return None
                steps.append(("".join(name), cur))
            cur = ch
            name = []
        else:
            name.append(ch)
    if not name:
        return None
    steps.append(("".join(name), cur))
    return steps


def is_walk(steps, pairs):
    return all((steps[i], steps[i + 1]) in pairs for i in range(len(steps) - 1))


def spell(steps, seqs):
    return "".join(seqs[n] if o == ">" else revcomp(seqs[n]) for n, o in steps)
