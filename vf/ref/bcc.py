"""Reference graph decomposition, independent of gaftools:

* components()            union-find
* artic_by_definition()   remove the node, count components (O(n*(n+m)); the definition itself)
* blocks()                textbook Hopcroft-Tarjan biconnected components (iterative), on the
                          simple undirected graph (self-links dropped, parallel links merged)
* chain()                 block-cut chain of a connected component, or None when it is not a chain
"""


def components(adj):
    parent = {v: v for v in adj}

    def find(x):
        while parent[x] != x:
            parent[x] = parent[parent[x]]
            x = parent[x]
        return x

    for v, ns in adj.items():
        for w in ns:
            a, b = find(v), find(w)
            if a != b:
                parent[a] = b
    comps = {}
    for v in adj:
        comps.setdefault(find(v), set()).add(v)
    return list(comps.values())


def _n_components_without(adj, removed):
    seen = {removed}
    n = 0
    for s in adj:
        if s in seen:
            continue
        n += 1
        stack = [s]
        seen.add(s)
        while stack:
            v = stack.pop()
            for w in adj[v]:
                if w not in seen:
                    seen.add(w)
                    stack.append(w)
    return n


def artic_by_definition(adj, only=None):
    """Nodes whose removal increases the number of connected components."""
    base = len(components(adj))
    out = set()
    for v in (only if only is not None else adj):
        if _n_components_without(adj, v) > base:
            out.add(v)
    return out


def blocks(adj):
    """Returns (list of blocks as frozensets of nodes, set of articulation points).
    Every non-self edge lies in exactly one block. Isolated nodes form no block."""
    disc, low = {}, {}
    out_blocks = []
    artic = set()
    t = 0
    for root in sorted(adj):
        if root in disc:
            continue
        disc[root] = low[root] = t
        t += 1
        estack = []
        root_children = 0
        stack = [(root, None, iter(sorted(adj[root])))]
        while stack:
            v, parent, it = stack[-1]
            advanced = False
            for w in it:
                if w == parent:
                    continue
                if w not in disc:
                    disc[w] = low[w] = t
                    t += 1
                    estack.append((v, w))
                    stack.append((w, v, iter(sorted(adj[w]))))
                    advanced = True
                    break
                elif disc[w] < disc[v]:
                    estack.append((v, w))
                    if disc[w] < low[v]:
                        low[v] = disc[w]
            if advanced:
                continue
            stack.pop()
            if stack:
                p = stack[-1][0]
                if low[v] < low[p]:
                    low[p] = low[v]
                if low[v] >= disc[p]:
                    blk = set()
                    while True:
                        e = estack.pop()
                        blk.update(e)
                        if e == (p, v):
                            break
                    out_blocks.append(frozenset(blk))
                    if p == root:
                        root_children += 1
                    else:
                        artic.add(p)
        if root_children > 1:
            artic.add(root)
    return out_blocks, artic


def chain(adj, comp=None):
    """Block-cut chain of the connected graph `adj` (restricted to comp if given).

    Returns dict(elements=[('s', node) | ('b', frozenset(inner nodes))...], artic=set, blocks=[...])
    in one of the two traversal directions, or dict(reason=...) with elements None when the
    block-cut tree is not a path (or there is no articulation point at all)."""
    if comp is not None:
        adj = {v: {w for w in adj[v] if w in comp} for v in comp}
    blks, artic = blocks(adj)
    res = {"artic": artic, "blocks": blks, "elements": None}
    if len(adj) == 1:
        res["reason"] = "single_node"
        return res
    if not artic:
        res["reason"] = "no_articulation_point"
        return res
    ap_blocks = {a: [] for a in artic}
    for i, b in enumerate(blks):
        for a in b & artic:
            ap_blocks[a].append(i)
    if any(len(b & artic) > 2 for b in blks):
        res["reason"] = "block_with_3+_articulation_points"
        return res
    if any(len(v) != 2 for v in ap_blocks.values()):
        res["reason"] = "articulation_point_in_3+_blocks"
        return res
    ends = [i for i, b in enumerate(blks) if len(b & artic) == 1]
    if len(ends) != 2:
        res["reason"] = "not_two_end_blocks"
        return res
    elements = []
    cur = ends[0]
    prev_ap = None
    seen_blocks = set()
    while True:
        seen_blocks.add(cur)
        inner = blks[cur] - artic
        if inner:
            elements.append(("b", frozenset(inner)))
        nxt_aps = [a for a in blks[cur] & artic if a != prev_ap]
        if not nxt_aps:
            break
        a = nxt_aps[0]
        elements.append(("s", a))
        nb = [i for i in ap_blocks[a] if i != cur]
        cur = nb[0]
        prev_ap = a
    if len(seen_blocks) != len(blks):
        res["reason"] = "disconnected_block_cut_tree"
        return res
    res["elements"] = elements
    return res
