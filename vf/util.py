"""Small shared helpers: paths, deterministic hashing/seeding, scratch directories."""

import hashlib
import json
import os
import random
import shutil
import sys
import tempfile

VERIF = os.path.dirname(os.path.dirname(os.path.abspath(__file__)))
REPO = os.environ.get("VERIF_REPO", "/repo")
DEPS = os.path.join(VERIF, ".deps")
PY = "/venv/bin/python"
WHEELS = "/opt/veriftools/wheels"
GUARD = "GAFTOOLS_VERIF"


def stable_hash(obj, n=16):
    """Process-independent hash of a JSON-able object (never Python's hash())."""
    if not isinstance(obj, (str, bytes)):
        obj = json.dumps(obj, sort_keys=True, default=str)
    if isinstance(obj, str):
        obj = obj.encode()
    return hashlib.sha1(obj).hexdigest()[:n]


def case_rng(prop, seed, shard, index, salt=""):
    """Every case has its own RNG so a single case can be regenerated for replay."""
    h = hashlib.sha256(f"{prop}:{seed}:{shard}:{index}:{salt}".encode()).digest()
    return random.Random(int.from_bytes(h[:8], "big"))


def put_repo_on_path():
    """The code under test is always imported from the tree named by VERIF_REPO."""
    if sys.path[0] != REPO:
        sys.path.insert(0, REPO)
    if os.path.isdir(DEPS) and DEPS not in sys.path:
        sys.path.append(DEPS)


class Scratch:
    """Scratch directory outside /repo and /verif, removed on exit."""

    def __init__(self, prefix="gaftools-vf-"):
        self.root = tempfile.mkdtemp(prefix=prefix)
        self.n = 0

    def sub(self, name=None):
        self.n += 1
        d = os.path.join(self.root, name or f"c{self.n}")
        os.makedirs(d, exist_ok=True)
        return d

    def drop(self, d):
        shutil.rmtree(d, ignore_errors=True)

    def close(self):
        shutil.rmtree(self.root, ignore_errors=True)


def write_text(path, text):
    with open(path, "w") as f:
        f.write(text)
    return path


def read_text(path):
    with open(path) as f:
        return f.read()


def short(x, n=300):
    s = x if isinstance(x, str) else repr(x)
    return s if len(s) <= n else s[: n - 3] + "..."


def vary_name(rng, default):
    """file names as users have them: several dots, blanks, dashes (the extension is kept)"""
    if rng.random() < 0.7:
        return default
    stem, ext = default.split(".", 1)
    return rng.choice([f"{stem}.v1.2.{ext}", f"my {stem}.{ext}", f"{stem}-1_x.{ext}", f"{stem}.{ext}.copy.{ext}"])
