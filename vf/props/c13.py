"""C13 — realign aborts with an error when a worker dies.        level: fault enumeration

Faults = (worker w) x (point: before put 0, between puts k/k+1, after the last result before the
sentinel, after the sentinel) x (kind: SIGKILL, SIGTERM, SIGSEGV, os._exit(3), sys.exit(2), uncaught exception) over
several (records, batch, cores) configurations, injected inside the worker by the driver's queue
proxy, with seeded delay schedules for the survivors; plus asynchronous SIGKILLs from the
supervisor after the n-th logged event; plus the two hostile in-delivery points: killed while
blocked inside the pipe write of a record larger than the pipe buffer (found via
/proc/<pid>/task/*/syscall) and killed while holding the queue's writer lock.

Verdicts: exit status 0 for a death up to and including "before the sentinel" -> violation;
for a death after the sentinel a zero exit with complete, correct output is also accepted;
"never hangs" is restated as bounded progress (parent exits within 25 collection-loop time-outs
after the last worker died) and, when the watchdog fires, decided structurally from /proc.
"""

import collections
import os
import signal
import time

from vf import realign_run as RR
from vf.util import stable_hash, read_text

ID = "C13"
LEVEL = "fault_enumeration"
RULE = ("fault triples (worker, point, kind) enumerated completely for the configurations "
        "(records, batch, cores) in CONFIGS [(3,1,2), (4,2,2), (5,2,3), (6,3,1), (7,2,4)] (thorough: "
        "three more and 3 survivor schedules each), one driver process tree per triple; plus "
        "asynchronous kills at random logical points and the two in-delivery kills; an evaluation "
        "is one execution with an injected fault; non-trivial = the fault fired (confirmed by the "
        "worker's own log and the worker's exit code seen by the parent); distinct by "
        "(config, worker, point, kind, survivor schedule)")
ASSUMPTIONS = ["a death after the sentinel may legitimately end in success when the output is complete and correct (lenient reading)",
               "deadlock is claimed only when every living process is blocked, no CPU time is used between two /proc samples 1 s apart and the "
               "blocking object's only possible wakers are dead or in the set; otherwise a watchdog firing is inconclusive",
               "the holding_writer_lock point is modelled by acquiring the queue's writer lock in the worker before SIGKILL (the lock is "
               "held by the feeder thread during send_bytes in the real schedule)"]

CONFIGS_Q = [(3, 1, 2), (4, 2, 2), (5, 2, 3), (6, 3, 1), (7, 2, 4)]
CONFIGS_T = CONFIGS_Q + [(9, 3, 3), (8, 1, 4), (2, 5, 1)]
# (records, batch, cores, victim): the victim dies holding the queue's writer lock; full rounds, a pending
# full batch next to a partial one, the partial batch itself, three cores
LOCK_CFGS = [(4, 2, 2, 0), (7, 2, 2, 2), (7, 2, 2, 3), (5, 2, 3, 1), (3, 2, 2, 0)]
KINDS = ["SIGKILL", "exit3", "exception", "SIGSEGV", "SIGTERM", "sys_exit_2"]


def triples(cfgs):
    out = []
    for ci, (n, b, c) in enumerate(cfgs):
        nw = -(-n // b)
        for w in range(nw):
            m = min(b, n - w * b)
            points = [f"before_put_{k}" for k in range(m)] + ["before_sentinel", "after_sentinel"]
            for p in points:
                out.append((ci, w, p))
    return out


_PLAN = {}


def _cases(tier):
    cfgs = CONFIGS_Q if tier == "quick" else CONFIGS_T
    cases = [("triple", ci, w, p, s) for (ci, w, p) in triples(cfgs) for s in range(1 if tier == "quick" else 6)]
    cases += [("async", i) for i in range(12 if tier == "quick" else 300)]
    cases += [("double", i) for i in range(10 if tier == "quick" else 250)]
    cases += [("in_pipe_write", i) for i in range(1 if tier == "quick" else 8)]
    cases += [("in_pipe_write_small", i) for i in range(2 if tier == "quick" else 8)]
    # the victim is killed right after the parent's n-th look at its state (exit code / liveness)
    cases += [("observe", n, cfg) for n in range(1, 7) for cfg in range(2 if tier == "quick" else 4)]
    # an exception raised inside the k-th alignment of a worker (not at a queue operation)
    cases += [("in_aligner", i) for i in range(6 if tier == "quick" else 120)]
    cases += [("holding_writer_lock", i) for i in range(len(LOCK_CFGS) if tier == "quick" else 4 * len(LOCK_CFGS))]
    return cfgs, cases


def plan(tier):
    _PLAN[tier] = _cases(tier)
    return {"cases": len(_PLAN[tier][1]), "shards": 16, "parallel": 12,
            "shard_budget_s": 600 if tier == "quick" else 3000, "watchdog_s": 1500 if tier == "quick" else 4000}


def required(tier):
    return ["executions", "fault_fired", "kind:SIGKILL", "kind:exit3", "kind:exception", "kind:SIGSEGV", "kind:SIGTERM", "kind:sys_exit_2",
            "point:before_put_0", "point:between_puts", "point:before_sentinel", "point:after_sentinel",
            "async_kills_delivered", "in_delivery_executions", "exit_nonzero", "double_fault_executions",
            "observation_kill_executions", "in_aligner_exception_executions"]


def EXHAUSTIVE(tier, m):
    cfgs, cases = _cases(tier)
    return f"all (worker, point, kind) triples of the configurations {cfgs}: {len([c for c in cases if c[0] == 'triple'])} x {len(KINDS)} executions"


def setup(ctx):
    pass


def inconclusive_reasons(m):
    """a watchdog firing without a structural deadlock proof is neither held nor violated"""
    n = m["situations"].get("inconclusive_watchdog", 0)
    return [f"{n} execution(s) hit the wall-clock watchdog without a structural proof of a deadlock"] if n else []


def judge(run, fault, wit, expected_text, out_path, viol, sit):
    ev = run["events"]
    fired = [e for e in ev if e["ev"] == "fault_fire"]
    if fired:
        sit["fault_fired"] += 1
    codes = [e["codes"] for e in ev if e["ev"] == "all_exited"]
    if run["timed_out"]:
        d = run["diag"] or {}
        if d.get("proven_deadlock"):
            viol.append({"kind": "hang_proven_deadlock", "msg": f"realign never exits after {fault['kind']} of worker {fault['worker']} at {fault['point']}: {d.get('why')}",
                         "witness": dict(wit, fault_point=fault["point"], fault_kind=fault["kind"], diag=d)})
        else:
            sit["inconclusive_watchdog"] += 1
            sit[f"inconclusive_watchdog:{fault['point']}:{fault['kind']}"] += 1
        return
    res = run["result"]
    if res is None:
        sit["inconclusive_driver_died"] += 1
        return
    o = res["outcome"]
    if o["kind"] == "nontermination":
        viol.append({"kind": "parent_polls_forever", "msg": f"after {fault['kind']} of worker {fault['worker']} at {fault['point']}: {o['message']}",
                     "witness": dict(wit, fault_point=fault["point"], fault_kind=fault["kind"])})
        return
    if o["kind"] == "internal_error":
        # an internal error is a non-zero termination, but not the documented abort: record it separately
        sit["terminated_by_internal_error"] += 1
    if not fired:
        sit["fault_not_fired"] += 1
        return
    rc = run["rc"]
    if rc != 0:
        sit["exit_nonzero"] += 1
        return
    # exit status 0
    got = read_text(out_path) if os.path.exists(out_path) else ""
    complete = got == expected_text
    if fault["point"] == "after_sentinel" and complete:
        sit["success_after_sentinel_with_complete_output"] += 1
        return
    gn = [l.split("\t")[0] for l in got.split("\n") if l]
    en = [l.split("\t")[0] for l in expected_text.split("\n") if l]
    viol.append({"kind": "success_reported_after_worker_death",
                 "msg": f"{fault['kind']} of worker {fault['worker']} at {fault['point']} (exit codes seen by the parent: {codes[-1:] or 'n/a'}): "
                        f"realign exited 0; output has {len(gn)} of {len(en)} records (complete and correct: {complete})",
                 "witness": dict(wit, fault_point=fault["point"], fault_kind=fault["kind"], records_out=len(gn), records_in=len(en), complete=complete)})


def survivors_plan(rng, nworkers, scale):
    to = 0.1 * scale
    wd = {}
    for wi in range(nworkers):
        for point in ["before_put_0", "before_put_1", "before_sentinel", "before_exit"]:
            if rng.random() < 0.3:
                wd[f"{wi}:{point}"] = rng.choice([0, 0.001, to * 0.5, to * 2, to * 4])
    pd = {}
    for n in range(1, 5):
        if rng.random() < 0.3:
            pd[f"before_alive:{n}"] = rng.choice([0, to, to * 3])
    return wd, pd


def run_case(ctx, rng, index, casedir):
    sit = collections.Counter()
    viol = []
    cfgs, cases = _PLAN.get(ctx.tier) or _cases(ctx.tier)
    case = cases[index]
    sigs = []
    evals = 0
    if case[0] == "triple":
        _t, ci, wkr, point, sched = case
        n, b, c = cfgs[ci]
        w = RR.make_workload(rng, casedir, n)
        base_out = os.path.join(casedir, "base.gaf")
        base = RR.run_driver(casedir, "base", ["realign", w.gaf, w.gfa, w.fasta, "-o", base_out, "-c", "1"], {"cores": 1}, None, timeout=120)
        if base["rc"] != 0:
            raise RuntimeError(f"baseline failed: {base['result']}")
        expected = read_text(base_out)
        for kind in KINDS:
            scale = 0.1
            planned = {"cores": c, "timeout_scale": scale, "fault": {"worker": wkr, "point": point, "kind": kind}}
            if sched > 0 or rng.random() < 0.5:
                planned["worker_delays"], planned["parent_delays"] = survivors_plan(rng, -(-n // b), scale)
            out = os.path.join(casedir, f"out_{kind}.gaf")
            wit = {"config": {"records": n, "batch": b, "cores": c}, "plan": planned}
            run = RR.run_driver(casedir, f"f_{kind}", ["realign", w.gaf, w.gfa, w.fasta, "-o", out, "-c", str(c)], planned, b, timeout=150)
            evals += 1
            sit["executions"] += 1
            sit["kind:" + kind] += 1
            sit["point:" + ("between_puts" if point.startswith("before_put_") and point != "before_put_0" else point)] += 1
            judge(run, planned["fault"], wit, expected, out, viol, sit)
            sigs.append(stable_hash([cfgs[ci], wkr, point, kind, sched]))
    elif case[0] == "in_aligner":
        n, b, c = rng.choice([(4, 2, 2), (5, 2, 3), (3, 1, 2), (6, 3, 1), (7, 2, 2), (2, 5, 1)])
        w = RR.make_workload(rng, casedir, n)
        base_out = os.path.join(casedir, "base.gaf")
        base = RR.run_driver(casedir, "base", ["realign", w.gaf, w.gfa, w.fasta, "-o", base_out, "-c", "1"], {"cores": 1}, None, timeout=120)
        if base["rc"] != 0:
            raise RuntimeError(f"baseline failed: {base['result']}")
        expected = read_text(base_out)
        nw = -(-n // b)
        wkr = rng.randrange(nw)
        m = min(b, n - wkr * b)
        for kind in ("value_error", "memory_error", "exception"):
            fault = {"worker": wkr, "point": f"in_aligner_{rng.randrange(m)}", "kind": kind}
            planned = {"cores": c, "timeout_scale": 0.1, "fault": fault}
            if rng.random() < 0.5:
                planned["worker_delays"], planned["parent_delays"] = survivors_plan(rng, nw, 0.1)
            out = os.path.join(casedir, f"out_{kind}.gaf")
            wit = {"config": {"records": n, "batch": b, "cores": c}, "plan": planned}
            run = RR.run_driver(casedir, f"a_{kind}", ["realign", w.gaf, w.gfa, w.fasta, "-o", out, "-c", str(c)], planned, b, timeout=150)
            evals += 1
            sit["executions"] += 1
            sit["in_aligner_exception_executions"] += 1
            judge(run, fault, wit, expected, out, viol, sit)
            sigs.append(stable_hash(["in_aligner", n, b, c, wkr, fault["point"], kind]))
    elif case[0] == "double":
        # two workers die in one execution (different or equal points / kinds)
        n, b, c = rng.choice([(6, 2, 3), (8, 2, 2), (5, 1, 4), (9, 3, 3), (4, 1, 2)])
        w = RR.make_workload(rng, casedir, n)
        base_out = os.path.join(casedir, "base.gaf")
        base = RR.run_driver(casedir, "base", ["realign", w.gaf, w.gfa, w.fasta, "-o", base_out, "-c", "1"], {"cores": 1}, None, timeout=120)
        expected = read_text(base_out)
        nw = -(-n // b)
        w1, w2 = rng.sample(range(nw), 2)
        pts = ["before_put_0", "before_sentinel", "after_sentinel"]
        f1 = {"worker": w1, "point": rng.choice(pts), "kind": rng.choice(KINDS)}
        f2 = {"worker": w2, "point": rng.choice(pts), "kind": rng.choice(KINDS)}
        scale = 0.1
        planned = {"cores": c, "timeout_scale": scale, "faults": [f1, f2]}
        planned["worker_delays"], planned["parent_delays"] = survivors_plan(rng, nw, scale)
        out = os.path.join(casedir, "out_double.gaf")
        run = RR.run_driver(casedir, "double", ["realign", w.gaf, w.gfa, w.fasta, "-o", out, "-c", str(c)], planned, b, timeout=150)
        evals = 1
        sit["executions"] += 1
        sit["double_fault_executions"] += 1
        # judged with the earlier of the two fault points (a death before the sentinel must abort)
        first = f1 if f1["point"] != "after_sentinel" else f2
        judge(run, dict(first, kind=f"{f1['kind']}+{f2['kind']}"), {"config": {"records": n, "batch": b, "cores": c}, "faults": [f1, f2]}, expected, out, viol, sit)
        sigs.append(stable_hash([n, b, c, f1, f2]))
    elif case[0] == "async":
        n, b, c = rng.choice([(6, 2, 3), (8, 2, 2), (5, 1, 4), (9, 3, 2)])
        w = RR.make_workload(rng, casedir, n)
        base_out = os.path.join(casedir, "base.gaf")
        base = RR.run_driver(casedir, "base", ["realign", w.gaf, w.gfa, w.fasta, "-o", base_out, "-c", "1"], {"cores": 1}, None, timeout=120)
        expected = read_text(base_out)
        after = rng.randint(2, 4 + 3 * n)
        state = {"done": False, "victim": None}

        def on_poll(p, logdir):
            if state["done"]:
                return
            ev = RR.load_events(logdir)
            if len(ev) >= after:
                live = {}
                for e in ev:
                    if e["ev"] == "worker_start":
                        live[e["pid"]] = e["w"]
                    if e["ev"] == "worker_done":
                        live.pop(e["pid"], None)
                for pid, wi in sorted(live.items()):
                    try:
                        os.kill(pid, signal.SIGKILL)
                        state["victim"] = wi
                        state["done"] = True
                        break
                    except ProcessLookupError:
                        continue
                if not live and any(e["ev"] == "driver_end" for e in ev):
                    state["done"] = True

        scale = 0.1
        planned = {"cores": c, "timeout_scale": scale}
        planned["worker_delays"], planned["parent_delays"] = survivors_plan(rng, -(-n // b), scale)
        planned["worker_delays"]["*:before_sentinel"] = 0.02
        out = os.path.join(casedir, "out_async.gaf")
        run = RR.run_driver(casedir, "async", ["realign", w.gaf, w.gfa, w.fasta, "-o", out, "-c", str(c)], planned, b, timeout=150, on_poll=on_poll)
        evals = 1
        sit["executions"] += 1
        if state["victim"] is not None:
            sit["async_kills_delivered"] += 1
            fault = {"worker": state["victim"], "point": f"async_after_event_{after}", "kind": "SIGKILL"}
            # an asynchronous kill may land after the worker's sentinel: treat like after_sentinel
            ev = run["events"]
            # call events are logged before invoking: once the victim's put of its sentinel was *called* the
            # batch may be fully delivered (the feeder thread flushes it even if the worker dies before the
            # return event is logged). The parent's own view decides: it received a sentinel from every worker.
            sentinel_called = any(e["ev"] in ("put_call", "put_ret") and e.get("id") == "sentinel" and e.get("w") == state["victim"] for e in ev)
            sentinels_received = sum(1 for e in ev if e["ev"] == "get_ok" and e.get("id") == "sentinel")
            if sentinel_called and sentinels_received >= -(-n // b):
                fault["point"] = "after_sentinel"
            run["events"].append({"ev": "fault_fire", "t": 0, "pid": 0, "role": "supervisor"})
            judge(run, fault, {"config": {"records": n, "batch": b, "cores": c}, "after_event": after}, expected, out, viol, sit)
            sigs.append(stable_hash([n, b, c, after, state["victim"]]))
        else:
            sit["async_kill_not_delivered"] += 1
    elif case[0] == "observe":
        _t, nobs, cfg = case
        n, b, c, victim = [(3, 3, 1, 0), (5, 2, 2, 1), (7, 2, 3, 2), (4, 1, 2, 0)][cfg]
        w = RR.make_workload(rng, casedir, n)
        base_out = os.path.join(casedir, "base.gaf")
        base = RR.run_driver(casedir, "base", ["realign", w.gaf, w.gfa, w.fasta, "-o", base_out, "-c", "1"], {"cores": 1}, None, timeout=120)
        if base["rc"] != 0:
            raise RuntimeError(f"baseline failed: {base['result']}")
        expected = read_text(base_out)
        # the victim has delivered its records and stalls before its sentinel, so the parent runs into
        # time-outs and looks at the workers again and again while the victim is still alive
        fault = {"worker": victim, "point": "after_observation", "n": nobs, "kind": "SIGKILL"}
        planned = {"cores": c, "timeout_scale": 0.2, "fault": fault, "worker_delays": {f"{victim}:before_sentinel": 4.0}}
        out = os.path.join(casedir, "out.gaf")
        run = RR.run_driver(casedir, "obs", ["realign", w.gaf, w.gfa, w.fasta, "-o", out, "-c", str(c)], planned, b, timeout=90)
        evals = 1
        sit["executions"] += 1
        sit["observation_kill_executions"] += 1
        judge(run, fault, {"config": {"records": n, "batch": b, "cores": c}, "after_observation": nobs}, expected, out, viol, sit)
        sigs.append(stable_hash(["observe", nobs, cfg]))
    else:
        variant = case[0]
        sit["in_delivery_executions"] += 1
        big = 300_000
        ln, lb, lc, lv = LOCK_CFGS[case[1] % len(LOCK_CFGS)] if variant == "holding_writer_lock" else (4, 2, 2, 0)
        if variant == "in_pipe_write_small":
            # many SMALL results (each far below PIPE_BUF, so every message of the one-record-per-message
            # protocol is written atomically) that together exceed the pipe capacity, default batch size
            big = None
            w = RR.make_workload(rng, casedir, rng.randint(500, 900), read_len=(20, 60))
        else:
            w = RR.make_workload(rng, casedir, ln, big_tag=big)
        out = os.path.join(casedir, "out.gaf")
        state = {"killed": None}
        if variant in ("in_pipe_write", "in_pipe_write_small"):
            planned = {"cores": 1, "timeout_scale": 1.0, "parent_delays": {"before_every_get": 0.4}}
            if not big:
                # the parent is late for its first reads (the worker fills the pipe and blocks), then keeps up
                planned["parent_delays"] = {"before_get:1": 2.0, "before_get:2": 2.0, "before_get:3": 2.0, "before_every_get": 0.01}

            def on_poll(p, logdir):
                if state["killed"]:
                    return
                for e in RR.load_events(logdir):
                    if e["ev"] == "worker_start":
                        pid = e["pid"]
                        try:
                            for t in os.listdir(f"/proc/{pid}/task"):
                                with open(f"/proc/{pid}/task/{t}/syscall") as f:
                                    sc = f.read().split()
                                if sc and sc[0] == "1":  # write()
                                    tgt = RR.fd_target(pid, int(sc[1], 16))
                                    if tgt and tgt.startswith("pipe:"):
                                        os.kill(pid, signal.SIGKILL)
                                        state["killed"] = {"pid": pid, "blocked_in": "write", "fd": tgt}
                                        return
                        except (OSError, ValueError):
                            pass
            fault = {"worker": 0, "point": "in_pipe_write", "kind": "SIGKILL"}
            run = RR.run_driver(casedir, "pipe", ["realign", w.gaf, w.gfa, w.fasta, "-o", out, "-c", "1"], planned, 4 if big else None, timeout=45 if big else 120, on_poll=on_poll)
            if state["killed"]:
                run["events"].append({"ev": "fault_fire", "t": 0, "pid": 0, "role": "supervisor"})
        else:
            planned = {"cores": lc, "timeout_scale": 0.2, "fault": {"worker": lv, "point": "holding_writer_lock", "kind": "SIGKILL"},
                       "worker_delays": {f"{x}:before_put_0": 0.3 for x in range(-(-ln // lb)) if x != lv}}
            fault = planned["fault"]
            run = RR.run_driver(casedir, "lock", ["realign", w.gaf, w.gfa, w.fasta, "-o", out, "-c", str(lc)], planned, lb, timeout=45)
            sit[f"lock_cfg:{ln}/{lb}/{lc}/victim{lv}"] += 1
        evals = 1
        sit["executions"] += 1
        wit = {"variant": variant, "record_bytes": big or max(len(l) for l in w.lines), "killed": state["killed"], "config": [ln, lb, lc, lv]}
        judge(run, fault, wit, "", out, viol, sit)
        sigs.append(stable_hash([variant, index]))
    return {"sigs": sigs, "evals": max(evals, 1), "situations": dict(sit), "violations": viol,
            "sample": {"case": list(case) if isinstance(case, tuple) else case}}
