"""C18 — order_gfa isolates components it cannot order.

Differential oracle between two real runs on the same input file: the full request (containing
non-chain components) versus the request with the non-chain components removed from
--chromosome_order.  The full run must complete normally, write nothing for a non-chain component
and write, for every chain-shaped chromosome, exactly what the reduced run writes.
Chain / non-chain classification comes from the independent block-cut decomposition (ref.bcc).
"""

import collections
import os

from vf import monitor as M
from vf.props import order_common as OC
from vf.ref import gfa as rg
from vf.util import stable_hash

ID = "C18"
LEVEL = "exploration"
RULE = ("per case one generated rGFA with 2-5 chromosomes of which a random non-empty subset is made "
        "non-chain-shaped by {branching tip, cycle with >= 3 articulation points without / with an "
        "inner node, two chromosomes joined through a haplotype node}, the bad ones at random "
        "positions of --chromosome_order (first / middle / last forced across cases), --by-chrom "
        "on/off; an evaluation is one pair of runs; non-trivial = request with >= 1 chain-shaped "
        "and >= 1 non-chain chromosome; distinct by (graph signature, order, options)")
ASSUMPTIONS = ["non-chain = the block-cut tree is not a path (a block with >= 3 articulation points, an articulation point in >= 3 blocks)",
               "components without any articulation point or with haplotype articulation points are not generated (neither C06 nor C18 speaks about them)",
               "the reduced run is the reference for what 'as if the skipped one were absent' means"]
NONCHAIN = ("block_with_3+_articulation_points", "articulation_point_in_3+_blocks", "not_two_end_blocks",
            "no_articulation_point")


def plan(tier):
    return {"cases": 800 if tier == "quick" else 100000, "shards": 16,
            "shard_budget_s": 400 if tier == "quick" else 3300}


def required(tier):
    return ["defect:tip", "defect:cycle3", "defect:cycle3_inner", "defect:joined", "bad_first",
            "bad_last", "bad_middle", "bad_followed_by_good", "pairs_compared", "by_chrom_runs", "complete_runs"]


def setup(ctx):
    pass


def run_case(ctx, rng, index, casedir):
    sit = collections.Counter()
    viol = []
    n = rng.choice([2, 2, 3, 3, 4, 5])
    kinds = ["tip", "cycle3", "cycle3_inner", "joined", "pair", "ring"]
    defects = {}
    bad_idx = rng.sample(range(n), rng.randint(1, max(1, n - 1)))
    for i in bad_idx:
        d = rng.choice(kinds)
        if d == "joined" and i + 1 >= n:
            d = "tip"
        defects[i] = d
    g = None
    for _ in range(20):
        try:
            g = OC.gen_graph(rng, defects=defects, n_chrom=n, id_style=rng.choice(["s", "name", "num"]),
                             scaffolds=rng.choice([2, 3, rng.randint(3, 9)]))
            break
        except RuntimeError:
            continue
    if g is None:
        return {"sig": None, "nontrivial": False, "situations": {"generator_gave_up": 1}, "violations": []}
    for d in defects.values():
        sit["defect:" + d] += 1
    gpath = os.path.join(casedir, "in.gfa")
    g.write(gpath, rng=rng, shuffle=rng.random() < 0.3)
    untagged = False
    if rng.random() < 0.12:
        # only the reference path carries the rGFA tags (what a reference-only tagging of an assembly
        # graph gives): SN/SO/SR missing on every non-reference segment
        import re
        with open(gpath) as f:
            txt = f.read().split("\n")
        txt = [re.sub(r"\t(SN:Z|SO:i|SR:i):[^\t]*", "", l) if l.startswith("S\t") and not re.search(r"\tSR:i:0(\t|$)", l) else l for l in txt]
        with open(gpath, "w") as f:
            f.write("\n".join(txt))
        sit["graphs_with_untagged_non_reference_segments"] += 1
        untagged = True
    named = OC.components_of(g)
    if untagged:
        # the names are voted among the tagged segments only: keep the cases where that vote agrees
        # with the vote among all segments and is not a tie
        for c, comp in named.items():
            top = collections.Counter(g.nodes[x].contig for x in comp if g.nodes[x].rank == 0).most_common(2)
            if not top or top[0][0] != c or (len(top) > 1 and top[0][1] == top[1][1]):
                return {"sig": None, "nontrivial": False, "situations": {"skipped_case_ambiguous_name": 1}, "violations": []}
    for comp in named.values():  # component naming must be unambiguous (majority SN vote)
        top = collections.Counter(g.nodes[x].contig for x in comp).most_common(2)
        if len(top) > 1 and top[0][1] == top[1][1]:
            return {"sig": None, "nontrivial": False, "situations": {"skipped_case_ambiguous_name": 1}, "violations": []}
    infos = {c: OC.classify(g, comp, c) for c, comp in named.items()}
    good = [c for c in named if infos[c]["in_domain"]]
    bad = [c for c in named if not infos[c]["in_domain"] and infos[c]["reason"] in NONCHAIN]
    other = [c for c in named if c not in good and c not in bad]
    if other or not bad:
        return {"sig": None, "nontrivial": False, "situations": {"skipped_case_other_shape": 1}, "violations": []}
    order = good + bad
    rng.shuffle(order)
    mode = index % 4
    if mode == 0:
        order = [bad[0]] + [c for c in order if c != bad[0]]
    elif mode == 1:
        order = [c for c in order if c != bad[0]] + [bad[0]]
    elif mode == 2 and len(order) >= 3:
        rest = [c for c in order if c != bad[0]]
        order = rest[:1] + [bad[0]] + rest[1:]
    if order[0] in bad:
        sit["bad_first"] += 1
    if order[-1] in bad:
        sit["bad_last"] += 1
    if any(c in bad for c in order[1:-1]):
        sit["bad_middle"] += 1
    if any(a in bad and b in good for a, b in zip(order, order[1:])):
        sit["bad_followed_by_good"] += 1
    by_chrom = rng.random() < 0.5
    with_seq = rng.random() < 0.3
    sit["by_chrom_runs" if by_chrom else "complete_runs"] += 1
    squat = [c for c in bad if "/" not in c] if rng.random() < 0.08 else []
    if squat:
        sit["squatted_skipped_paths"] += 1
    full = OC.run_order(gpath, os.path.join(casedir, "full"), order, by_chrom, with_seq, squat=squat)
    reduced_order = [c for c in order if c in good]
    wit = {"order": order, "non_chain": {c: infos[c]["reason"] for c in bad}, "by_chrom": by_chrom,
           "outcome": full.outcome, "defects": sorted(set(defects.values()))}
    if full.outcome["kind"] != "ok":
        viol.append({"kind": "did_not_complete", "msg": f"order_gfa --chromosome_order {','.join(order)} (non-chain: {bad}): {full.outcome}",
                     "witness": dict(wit, tb=full.tb[-600:])})
    else:
        fg = OC.parse_gfa_outputs(full)
        fc = OC.parse_csv_outputs(full)
        # whatever is written consists of segments of the input graph (also when nothing could be ordered)
        for key, (og, _txt) in fg.items():
            foreign = sorted(set(og.segments) - set(g.nodes))[:5]
            if foreign:
                viol.append({"kind": "foreign_segments_in_output", "msg": f"output {key} contains segments that are not in the input graph: {foreign}", "witness": wit})
        # nothing for non-chain components
        for c in bad:
            if by_chrom and (c in fg or c in fc):
                viol.append({"kind": "output_for_non_chain", "msg": f"output file written for non-chain chromosome {c}", "witness": wit})
            if not by_chrom and "complete" in fg:
                written = set(fg["complete"][0].segments) & named[c]
                if written:
                    viol.append({"kind": "output_for_non_chain", "msg": f"{len(written)} nodes of non-chain chromosome {c} in the complete file", "witness": wit})
            if not any(c in w_ for w_ in full.warnings):
                viol.append({"kind": "skip_not_reported", "msg": f"non-chain chromosome {c} skipped without a warning naming it", "witness": wit})
        if reduced_order:
            red = OC.run_order(gpath, os.path.join(casedir, "red"), reduced_order, by_chrom, with_seq)
            if red.outcome["kind"] != "ok":
                sit["reduced_run_failed"] += 1  # C06's business
            else:
                M.hit("pairs_compared")
                names_full = {k: v for k, v in full.files.items()}
                names_red = {k: v for k, v in red.files.items()}
                if sorted(names_full) != sorted(names_red):
                    viol.append({"kind": "file_set_differs", "msg": f"files written {sorted(names_full)} vs without the non-chain chromosomes {sorted(names_red)}", "witness": wit})
                for fn in sorted(set(names_full) & set(names_red)):
                    a, b = open(names_full[fn]).read(), open(names_red[fn]).read()
                    if a != b:
                        al, bl = a.split("\n"), b.split("\n")
                        d = next((i for i in range(min(len(al), len(bl))) if al[i] != bl[i]), min(len(al), len(bl)))
                        viol.append({"kind": "chain_output_differs", "msg": f"{fn}: differs from the run without the non-chain chromosomes at line {d}: "
                                                                            f"{al[d][:100] if d < len(al) else None!r} vs {bl[d][:100] if d < len(bl) else None!r}",
                                     "witness": wit})
        elif full.files and any(f.endswith(".gfa") and os.path.getsize(p) > 0 for f, p in full.files.items()):
            viol.append({"kind": "output_for_non_chain", "msg": "all requested chromosomes are non-chain but non-empty GFA output exists", "witness": wit})
    return {"sig": stable_hash([g.signature(), order, by_chrom]), "nontrivial": bool(good and bad), "evals": 1,
            "situations": dict(sit), "violations": viol, "outcomes": {full.outcome["kind"]: 1},
            "sample": {"order": order, "non_chain": {c: infos[c]["reason"] for c in bad}, "by_chrom": by_chrom}}
