"""C01 — Coordinate conversion designates the same aligned locus.

Contracts on the real to_stable / to_unstable / merge_nodes / search_intervals / reverse_cigar
(with OLD snapshots) + a boundary oracle on `gaftools view --format stable|unstable` output:
same target bases (string and locus), path-length column, CIGAR reversed <=> strand flipped.
"""

import collections
import os
from vf.util import vary_name  # noqa: E402

from vf import monitor as M
from vf.cli import run_cli
from vf.gen import rgfa, gaf as ggaf
from vf.props import conv_common as CC
from vf.ref import gaf as rgaf
from vf.util import stable_hash, read_text

ID = "C01"
LEVEL = "exploration"
RULE = ("per case one generated valid rGFA (1-3 rank-0 contigs tiled by 1-40 segments, 0-5 haplotype "
        "contigs with separated / coordinate-adjacent segments, inversions, back links, self-links) "
        "and 8-30 '+'-strand walk alignments with arbitrary offsets; each record is converted "
        "unstable->stable and the result stable->unstable by the real `view --format`; an "
        "evaluation is one converted record; non-trivial = walk of >= 2 nodes or any reverse step; "
        "distinct by (graph signature, path, start, end, direction)")
ASSUMPTIONS = ["zero-length alignments (start = end) are outside the domain",
               "the generator's ground truth (node -> contig/offset/sequence) is the oracle's truth; "
               "sequences are random ACGT so that a wrong locus spells a different string, and loci "
               "are additionally compared base by base",
               "stable->unstable is exercised on the stable records gaftools itself produced"]


def plan(tier):
    return {"cases": 1200 if tier == "quick" else 80000, "shards": 16,
            "shard_budget_s": 300 if tier == "quick" else 3300}


def required(tier):
    return ["post:to_stable", "post:to_unstable", "post:merge_nodes", "post:search_intervals",
            "post:reverse_cigar", "collapse_forward", "collapse_reverse_strand_flip",
            "multi_interval", "merged_3plus_fwd", "merged_3plus_rev", "haplotype_separated",
            "mixed_orientation", "revisit", "overlap_case1", "overlap_case2", "overlap_case3",
            "to_unstable_bare_minus", "records_u2s", "records_s2u", "stdout_output_runs"]


def setup(ctx):
    CC.install_conversion_contracts()


def classify_walk(g, walk, sit):
    orients = {o for _n, o in walk}
    if len(orients) == 2:
        sit["mixed_orientation"] += 1
    names = [n for n, _o in walk]
    if len(set(names)) < len(names):
        sit["revisit"] += 1
    if len(walk) >= 3 and all(g.nodes[n].rank == 0 for n in names) and len(orients) == 1:
        # consecutive on the reference?
        ok = True
        for (a, _), (b, _) in zip(walk, walk[1:]):
            na, nb = g.nodes[a], g.nodes[b]
            if na.contig != nb.contig or not ((orients == {">"} and na.end == nb.so) or (orients == {"<"} and nb.end == na.so)):
                ok = False
        if ok:
            sit["merged_3plus_fwd" if orients == {">"} else "merged_3plus_rev"] += 1
    if any(g.nodes[n].rank > 0 for n in names):
        hn = [g.nodes[n] for n in names if g.nodes[n].rank > 0]
        sit["haplotype_node_in_path"] += 1
        for c in {h.contig for h in hn}:
            segs = g.contig_nodes(c)
            if any(a.end != b.so for a, b in zip(segs, segs[1:])):
                sit["haplotype_separated"] += 1
                break


def judge_file(coords, in_recs, out_text, viol, sit, who, strict_count=True):
    try:
        outs = rgaf.parse_file_text(out_text)
    except Exception as e:
        viol.append({"kind": "malformed_output", "msg": f"{who}: output not parseable: {e}"})
        return []
    if len(outs) != len(in_recs):
        viol.append({"kind": "record_count", "msg": f"{who}: {len(in_recs)} records in, {len(outs)} out"})
        return outs
    for rin, rout in zip(in_recs, outs):
        if rin.qname.split(" ")[0] != rout.qname:
            viol.append({"kind": "record_order", "msg": f"{who}: expected read {rin.qname} got {rout.qname}"})
            continue
        for kind, msg in CC.judge_conversion(coords, rin, rout, rin.cigar(), rout.cigar(), who):
            viol.append({"kind": kind, "msg": msg, "witness": {"in": rin.raw[:300], "out": rout.raw[:300]}})
        if ">" not in rout.path and "<" not in rout.path:
            sit["collapse_reverse_strand_flip" if rout.strand == "-" else "collapse_forward"] += 1
        elif ":" in rout.path and rout.path.count(":") > 1:
            sit["multi_interval"] += 1
    return outs


def run_case(ctx, rng, index, casedir):
    sit = collections.Counter()
    viol = []
    size = rng.choice(["small", "small", "medium"]) if ctx.tier == "quick" else rng.choice(["small", "medium", "medium", "large"])
    g = rgfa.gen_rgfa(rng, size=size)
    gz = rng.random() < 0.25
    gpath = g.write(os.path.join(casedir, vary_name(rng, "g.gfa") + (".gz" if gz else "")), rng=rng, shuffle=rng.random() < 0.5,
                    with_seq=rng.random() >= 0.2,
                    bo_no=({n: (rng.randint(0, 40), rng.randint(0, 6)) for n in g.nodes} if rng.random() < 0.15 else None))  # an rGFA without sequences ('*', lengths in LN) is enough to convert
    coords = rgaf.Coords(g)
    M.CTX["coords"] = coords
    nrec = rng.randint(8, 30)
    maxlen = 12 if ctx.tier == "quick" else rng.choice([12, 30, 60])
    walks = ggaf.make_walks(g, rng, nrec, maxlen=maxlen)
    recs = [ggaf.make_record(g, rng, w, f"r{index}_{i}", offsets="any", tags=rng.choice(["safe", "grammar_plain"])) for i, w in enumerate(walks)]
    for w in walks:
        classify_walk(g, w, sit)
    mode = rng.choice(["plain", "plain", "bgzf", "pysam"])
    gaf_in = os.path.join(casedir, vary_name(rng, "in.gaf") + ("" if mode == "plain" else ".gz"))
    ggaf.write_gaf(gaf_in, [r.line for r in recs], mode=mode, rng=rng, layout=rng.choice(["standard", "tiny"]))
    in_recs = [rgaf.Rec(r.line) for r in recs]
    gsig = stable_hash(g.signature())
    sigs = []
    # unstable -> stable
    out_s = os.path.join(casedir, "stable.gaf")
    if rng.random() < 0.25:  # default output: stdout
        o = run_cli(["view", gaf_in, "-g", gpath, "-f", "stable"])
        if o.ok:
            with open(out_s, "w") as f:
                f.write(o.stdout)
        sit["stdout_output_runs"] += 1
    else:
        o = run_cli(["view", gaf_in, "-g", gpath, "-f", "stable", "-o", out_s])
    outcomes = collections.Counter({f"u2s:{o.kind}": 1})
    stable_recs = []
    if not o.ok:
        viol.append({"kind": "view_failed", "msg": f"view -f stable: {o.brief()}", "witness": {"tb": o.tb[-600:]}})
    else:
        stable_recs = judge_file(coords, in_recs, read_text(out_s), viol, sit, "view -f stable")
        M.hit("records_u2s", len(stable_recs))
    # stable -> unstable on what gaftools itself produced
    if stable_recs and len(stable_recs) == len(in_recs):
        out_u = os.path.join(casedir, "unstable.gaf")
        o = run_cli(["view", out_s, "-g", gpath, "-f", "unstable", "-o", out_u])
        outcomes[f"s2u:{o.kind}"] += 1
        if not o.ok:
            viol.append({"kind": "view_failed", "msg": f"view -f unstable: {o.brief()}", "witness": {"tb": o.tb[-600:]}})
        else:
            back = judge_file(coords, stable_recs, read_text(out_u), viol, sit, "view -f unstable")
            M.hit("records_s2u", len(back))
    if stable_recs and len(stable_recs) == len(in_recs) and rng.random() < 0.3:
        # the same conversion for a selection (-n NODE through an index): the selected records designate
        # what they designate in the whole-file conversion - also when the index was made with another
        # release of the graph (same segments and links, other contig names / offsets): the coordinates
        # come from the graph given to view
        import re
        other_release = rng.random() < 0.5
        igfa = gpath
        if other_release:
            shift = rng.randint(1, 500)
            igfa = os.path.join(casedir, "g.earlier_release.gfa")
            with open(igfa, "w") as f:
                for l in g.lines(with_seq=False):
                    if l.startswith("S\t"):
                        l = re.sub(r"\tSO:i:(\d+)", lambda m_: f"\tSO:i:{int(m_.group(1)) + shift}", l)
                        if shift % 2:
                            l = re.sub(r"\tSN:Z:([^\t]*)", lambda m_: f"\tSN:Z:{m_.group(1)}_v1", l)
                    f.write(l + "\n")
            sit["selection_with_index_of_other_graph_release"] += 1
        oi = run_cli(["index", gaf_in, igfa])
        outcomes[f"index:{oi.kind}"] += 1
        if oi.ok:
            stable_lines = read_text(out_s).split("\n")
            node = rng.choice(sorted({n for r in recs for n in r.nodes}))
            sel = [i for i, r in enumerate(recs) if node in r.nodes]
            out_n = os.path.join(casedir, "sel.gaf")
            o = run_cli(["view", gaf_in, "-g", gpath, "-f", "stable", "-n", node, "-o", out_n])
            outcomes[f"u2s_selection:{o.kind}"] += 1
            sit["selection_conversions"] += 1
            if not o.ok:
                viol.append({"kind": "view_failed", "msg": f"view -f stable -n {node}: {o.brief()}", "witness": {"tb": o.tb[-600:], "other_release": other_release}})
            else:
                got = read_text(out_n).split("\n")
                if got and got[-1] == "":
                    got = got[:-1]
                exp = [stable_lines[i] for i in sel]
                if got != exp:
                    d = next((k for k in range(min(len(got), len(exp))) if got[k] != exp[k]), None)
                    viol.append({"kind": "selection_conversion_differs",
                                 "msg": f"view -f stable -n {node} (index made with {'another release of' if other_release else ''} the graph): "
                                        f"{len(got)} records vs {len(exp)} in the whole-file conversion" +
                                        (f"; first difference {got[d][:160]!r} vs {exp[d][:160]!r}" if d is not None else ""),
                                 "witness": {"node": node, "other_release": other_release}})
    for r in recs:
        if len(r.walk) >= 2 or r.walk[0][1] == "<":
            sigs.append(stable_hash([gsig, rgfa.path_str(r.walk), r.ps, r.pe]))
    M.CTX.clear()
    return {"sigs": sigs, "evals": 2 * len(recs), "situations": dict(sit), "violations": viol,
            "outcomes": dict(outcomes),
            "sample": {"graph": {"nodes": len(g.nodes), "links": len(g.links), "contigs": g.contigs},
                       "gaf_mode": mode, "records": [r.line[:200] for r in recs[:3]]}}
