"""C09 — sort emits every record once, unchanged, plus correct bo/sn/iv tags.

Boundary oracle (conservation: in = out, exactly once by unique read names; every output line minus
its last three fields is an input line, right-stripped) + the last three fields are bo:i / sn:Z /
iv:i in that order with the reference values; contract on the real sort.process_alignment.
Grammar-class optional fields are allowed here because sort re-reads the raw line.
"""

import collections
import gzip
import os

from vf import bgzf, monitor as M
from vf.cli import run_cli
from vf.props import sort_common as SC
from vf.util import stable_hash

ID = "C09"
LEVEL = "exploration"
RULE = ("per case one BO/NO-tagged chain rGFA and a GAF of 1-300 (thorough up to 5000) alignments "
        "with grammar-class optional fields, plain / multi-block BGZF input, plain / --bgzip "
        "output, inversions and haplotype-only paths; an evaluation is one output record judged; "
        "non-trivial = record with >= 2 nodes; distinct by the record line")
ASSUMPTIONS = ["every path stays inside one chromosome component (rank-0 nodes on a path share one contig)",
               "lines are compared after right-stripping white space (sort strips the line end)"]


def plan(tier):
    return {"cases": 800 if tier == "quick" else 40000, "shards": 16,
            "shard_budget_s": 300 if tier == "quick" else 3300}


def required(tier):
    return ["post:process_alignment", "records_judged", "iv1_records", "unknown_records",
            "bgzf_input", "bgzip_output", "stdout_output", "grammar_fields"]


def setup(ctx):
    SC.install_sort_contracts()


def run_case(ctx, rng, index, casedir):
    sit = collections.Counter()
    viol = []
    hi = 300 if ctx.tier == "quick" else rng.choice([300, 1500, 5000])
    w = SC.build(rng, casedir, index, nrec=rng.choice([1, 3, rng.randint(4, 40), rng.randint(40, hi)] + ([0] if rng.random() < 0.1 else [])),
                 tags=rng.choice(["grammar", "grammar", "safe"]))
    M.CTX["sort"] = (w.g, w.tags)
    if w.mode != "plain":
        sit["bgzf_input"] += 1
    keys = {l.split("\t")[0]: SC.ref_tags(w.g, w.tags, l) for l in w.lines}
    by_name = {l.split("\t")[0]: l for l in w.lines}
    how = rng.choice(["plain", "bgzip", "stdout"])
    # the name of the output file and the --bgzip switch are two things: only the switch asks for compression
    out = os.path.join(casedir, rng.choice(["sorted.gaf" + (".gz" if how == "bgzip" else ""), "sorted.gaf" + (".gz" if how == "bgzip" else ""),
                                            "sorted.gaf.gz", "sorted.gaf", "sorted.gz", "sorted"]))
    if out.endswith(".gz") != (how == "bgzip") and how != "stdout":
        sit["output_name_suffix_other_than_switch"] += 1
    argv = ["sort", w.gaf, w.gfa]
    if how != "stdout":
        argv += ["--outgaf", out]
    if how == "bgzip":
        argv += ["--bgzip"]
    sit[{"plain": "plain_output", "bgzip": "bgzip_output", "stdout": "stdout_output"}[how]] += 1
    SC.reset_seen()
    o = run_cli(argv)
    outcomes = {o.kind: 1}
    sigs = []
    evals = 0
    if not o.ok:
        viol.append({"kind": "sort_failed", "msg": f"sort: {o.brief()}", "witness": {"outcome": o.to_json()}})
    else:
        if how == "stdout":
            text = o.stdout
        elif open(out, "rb").read(2) == b"\x1f\x8b" and how != "bgzip":
            viol.append({"kind": "output_compressed_without_bgzip", "msg": f"sort --outgaf {os.path.basename(out)} without --bgzip wrote a gzip/BGZF file, not the text records"})
            with gzip.open(out, "rt") as f:
                text = f.read()
        elif how == "bgzip" and open(out, "rb").read(2) != b"\x1f\x8b":
            viol.append({"kind": "output_not_compressed_with_bgzip", "msg": f"sort --bgzip --outgaf {os.path.basename(out)} did not write a BGZF file"})
            text = open(out).read()
        elif how == "bgzip":
            with gzip.open(out, "rt") as f:
                text = f.read()
            if bgzf.BgzfIndex(out).data.decode() != text:
                raise RuntimeError("oracle self-check: gzip and BGZF block parser disagree")
        else:
            text = open(out).read()
        outl = [l for l in text.split("\n") if l != ""]
        seen = collections.Counter()
        for l in outl:
            cols = l.split("\t")
            name = cols[0]
            seen[name] += 1
            evals += 1
            M.hit("records_judged")
            src = by_name.get(name)
            if src is None:
                viol.append({"kind": "unknown_record", "msg": f"output record {name} is not an input record"})
                continue
            if "\t".join(cols[:-3]) != src.rstrip():
                viol.append({"kind": "record_changed", "msg": f"record {name}: output minus 3 fields {chr(9).join(cols[:-3])[:200]!r} != input {src[:200]!r}"})
            k = keys[name]
            exp = [f"bo:i:{k['bo']}", f"sn:Z:{k['sn']}", f"iv:i:{k['iv']}"]
            if cols[-3:] != exp:
                viol.append({"kind": "appended_tags", "msg": f"record {name} path {src.split(chr(9))[5]}: appended {cols[-3:]} expected {exp}",
                             "witness": {"path": src.split("\t")[5]}})
            if k["iv"]:
                sit["iv1_records"] += 1
            if k["sn"] == "unknown":
                sit["unknown_records"] += 1
            if len(src.split("\t")) > 13:
                sit["grammar_fields"] += 1
            if src.split("\t")[5].count(">") + src.split("\t")[5].count("<") >= 2:
                sigs.append(stable_hash(src))
        missing = [n for n in by_name if seen[n] == 0]
        dup = [n for n, c in seen.items() if c > 1]
        if missing or dup:
            viol.append({"kind": "conservation", "msg": f"{len(missing)} input records missing ({missing[:5]}), {len(dup)} emitted more than once ({dup[:5]})"})
    M.CTX.clear()
    return {"sigs": sigs, "evals": max(evals, 1), "situations": dict(sit), "violations": viol, "outcomes": outcomes,
            "sample": {"records": len(w.lines), "mode": w.mode, "output": how, "first": (w.lines[0][:200] if w.lines else None)}}
