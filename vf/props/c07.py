"""C07 — order_gfa and GFA I/O preserve the graph.

(A) boundary oracle with the independent GFA reader on the files written by the real
`gaftools order_gfa`: segment set (id, sequence or '*', tags) and canonical link multiset (ends,
overlap, tags) equal those of the ordered input components plus BO/NO; S before L; S lines in
(BO, NO) order; CSV rows once per node with the same BO/NO and colour <=> reference role.
(B) library round trip on general GFAs: GFA(f).write_gfa(g); GFA(g) equals GFA(f) (real
is_equal_to both ways AND independent comparison of f and g).
Contract on GFA.add_edge: after the call both endpoint sets hold the mirrored entry.
"""

import collections
import os

from vf import monitor as M
from vf.gen import rgfa, gaf as ggaf
from vf.props import order_common as OC
from vf.ref import gfa as rg
from vf.util import stable_hash

ID = "C07"
LEVEL = "exploration"
RULE = ("per case (A) one chain rGFA decorated as a general GFA (extra S/L tags of every SAM type "
        "incl. ':' inside Z values and tag names with a digit, tag-less links, overlaps nM, "
        "self-links in four forms, links declared from either/both ends, H/P/W/# lines "
        "interleaved, '*' and real sequences) run through order_gfa with random --with-sequence / "
        "--by-chrom, and (B) one general (non-chain) GFA through a library load/write/load round "
        "trip; an evaluation is one output file or one round trip judged; non-trivial = graph "
        "with >= 1 extra tag and >= 1 non ++ link; distinct by graph text")
ASSUMPTIONS = ["out of domain: links to undeclared segments, parallel links that differ only in overlap, '*' overlaps, exact duplicate L lines",
               "tag order on a line is not part of the comparison (tags compared as multisets), BO/NO excluded on the input side",
               "the same link declared once from each end counts as two listings"]


def plan(tier):
    return {"cases": 1000 if tier == "quick" else 120000, "shards": 16,
            "shard_budget_s": 400 if tier == "quick" else 3300}


def required(tier):
    return ["post:add_edge", "order_files_judged", "roundtrips_judged", "colon_in_Z_value", "tagless_link",
            "self_link", "both_end_declaration", "with_sequence_runs", "without_sequence_runs",
            "complete_file_runs", "by_chrom_runs", "csv_rows_judged", "digit_in_tag_name", "mixed_case_sequences", "single_segment_chromosomes", "chromosome_gt_100000_segments", "input_with_stale_bo_no"]


SIDE_L = {"+": 1, "-": 0}
SIDE_R = {"+": 0, "-": 1}
_E_DIR = {("+", "+"): (1, 0), ("+", "-"): (1, 1), ("-", "+"): (0, 0), ("-", "-"): (0, 1)}


def post_add_edge(self, node1, node1_dir, node2, node2_dir, overlap, tags):
    M.hit("post:add_edge")
    if node1 not in self.nodes or node2 not in self.nodes:
        return True
    # after add_edge the direction arguments are still '+'/'-' here (icontract passes the call args)
    if node1_dir not in ("+", "-"):
        return True
    s1, s2 = SIDE_L[node1_dir], SIDE_R[node2_dir]
    a = self.nodes[node1].start if s1 == 0 else self.nodes[node1].end
    b = self.nodes[node2].start if s2 == 0 else self.nodes[node2].end
    if (node2, s2, overlap) not in a or (node1, s1, overlap) not in b:
        M.record("add_edge_asymmetric", f"add_edge({node1}{node1_dir},{node2}{node2_dir}): mirrored adjacency entry missing")
    return True


def setup(ctx):
    from gaftools import gfa
    M.attach(gfa.GFA, "add_edge", post=post_add_edge, optional=True)


def decorate(g, rng, sit, s_tags=True):
    """general-GFA decorations (kept in the ground truth)"""
    for n in g.nodes.values():
        if s_tags and rng.random() < 0.4:
            extra = ggaf.grammar_tags(rng, None, n=rng.randint(1, 3), repeats=False)
            extra = [t for t in extra if t.split(":")[0] not in ("tp", "ds", "LN", "SN", "SO", "SR", "BO", "NO")]
            names = set()
            keep = []
            for t in extra:
                k = t.split(":")[0]
                if k not in names:
                    names.add(k)
                    keep.append(t)
            n.extra = ggaf.no_trailing_blank(keep)  # the extra tags are the last fields of the S line
            for t in keep:
                p = t.split(":", 2)
                if p[1] == "Z" and ":" in p[2]:
                    sit["colon_in_Z_value"] += 1
                if p[0][1].isdigit():
                    sit["digit_in_tag_name"] += 1
    if rng.random() < 0.4:  # soft-masked / ambiguous bases are valid GFA sequence characters
        for n in g.nodes.values():
            if rng.random() < 0.5:
                n.seq = "".join(c.lower() if rng.random() < 0.5 else (c if rng.random() < 0.9 else "N") for c in n.seq)
        sit["mixed_case_sequences"] += 1
    seen = set()
    for l in g.links:
        r = rng.random()
        if r < 0.2:
            l[5] = []
            sit["tagless_link"] += 1
        elif r < 0.5:
            l[5] = list(l[5]) + [f"zz:Z:x{rng.randint(0, 99)}", f"ab:i:-{rng.randint(1, 9)}"][: rng.randint(1, 2)]
        if rng.random() < 0.2:
            l[4] = rng.randint(1, 9)
        if l[0] == l[2]:
            sit["self_link"] += 1
    # drop parallel links that differ only in overlap / exact duplicates (out of domain)
    uniq = []
    overlaps_of = {}  # canonical ends -> overlaps already kept
    for l in g.links:
        key = rg.RefGFA.link_ends(l[0], l[1], l[2], l[3])
        dirkey = (l[0], l[1], l[2], l[3])
        if dirkey in seen:
            continue
        if any(ov != l[4] for ov in overlaps_of.get(key, ())):
            continue
        seen.add(dirkey)
        overlaps_of.setdefault(key, set()).add(l[4])
        uniq.append(l)
    g.links[:] = uniq
    ends = collections.Counter(rg.RefGFA.link_ends(l[0], l[1], l[2], l[3]) for l in g.links)
    if any(v > 1 for v in ends.values()):
        sit["both_end_declaration"] += 1
    if rng.random() < 0.5:
        g.header = "H\tVN:Z:1.0"
    if rng.random() < 0.5:
        some = list(g.nodes)[:3]
        g.extra_lines = ["P\tp1\t" + ",".join(s + "+" for s in some) + "\t*", "# comment",
                         "W\tsmp\t1\tchr1\t0\t10\t" + "".join(">" + s for s in some)]


def norm_tags(tags, drop=("BO", "NO")):
    return sorted(t for t in tags if t.split(":", 1)[0] not in drop)


def compare_graph(src, out, nodes, with_seq, viol, who, expect_bo=True):
    """src/out: RefGFA; nodes: set of ids expected in out"""
    if set(out.segments) != set(nodes):
        missing = sorted(set(nodes) - set(out.segments))[:5]
        extra = sorted(set(out.segments) - set(nodes))[:5]
        viol.append({"kind": "segment_set", "msg": f"{who}: segments missing {missing} / invented {extra}"})
    if out.dup_segments:
        viol.append({"kind": "segment_duplicated", "msg": f"{who}: S line repeated for {out.dup_segments[:5]}"})
    for sid in set(out.segments) & set(nodes):
        sseq, stags = src.segments[sid]
        oseq, otags = out.segments[sid]
        exp_seq = sseq if with_seq else "*"
        if oseq != exp_seq:
            viol.append({"kind": "segment_sequence", "msg": f"{who}: {sid}: sequence {oseq[:20]!r} expected {exp_seq[:20]!r}"})
            break
        if norm_tags(otags) != norm_tags(stags):
            viol.append({"kind": "segment_tags", "msg": f"{who}: {sid}: tags {norm_tags(otags)} expected {norm_tags(stags)}",
                         "witness": {"in": stags, "out": otags}})
            break
        if expect_bo and (out.tag(sid, "BO") is None or out.tag(sid, "NO") is None):
            viol.append({"kind": "missing_bo_no", "msg": f"{who}: {sid} has no BO/NO"})
            break
        names = [t.split(":", 1)[0] for t in otags]
        dup = sorted({x for x in names if names.count(x) > 1})
        if dup:
            viol.append({"kind": "segment_tag_repeated", "msg": f"{who}: {sid}: tag(s) {dup} written more than once: {otags}",
                         "witness": {"in": stags, "out": otags}})
            break
    exp_links = src.canon_links(nodes=set(nodes))
    got_links = out.canon_links()
    if got_links != exp_links:
        # a link that the input declares once from each end is ONE link listed twice: writing it once or
        # twice are both "the links of the input". Everything else must agree exactly: every output link is
        # one of the input's declarations (ends, overlap, tags), none more often than the input listed it,
        # and every distinct input link (ends + overlap) is present.
        ce, cg = collections.Counter(exp_links), collections.Counter(got_links)
        extra = list((cg - ce).elements())[:3]
        ends_in = {(e, ov) for e, ov, _t in exp_links}
        ends_out = {(e, ov) for e, ov, _t in got_links}
        lost = sorted(ends_in - ends_out)[:3]
        if extra or lost:
            viol.append({"kind": "links", "msg": f"{who}: links lost {lost} / invented or duplicated {extra}",
                         "witness": {"lost": lost, "extra": extra}})


def part_a(ctx, rng, casedir, sit, viol, sigs, big=False):
    nsingle = rng.choice([0, 0, 1, 2])
    if big:
        # one chromosome of more than 100 000 segments (a real chromosome has more)
        g = OC.gen_graph(rng, n_chrom=1, scaffolds=rng.randint(55000, 57000), id_style="s", kinds=["snp", "ins", "del", "bridge"],
                         end_style="leaf")
        sit["chromosome_gt_100000_segments"] += int(len(g.nodes) > 100000)
        nsingle = 0
    else:
        g = OC.gen_graph(rng, n_chrom=rng.choice([1, 2, 3]), scaffolds=rng.choice([2, 3, rng.randint(3, 12)]),
                         id_style=rng.choice(["s", "name", "num"]), singletons=nsingle)
    if nsingle:
        sit["single_segment_chromosomes"] += nsingle
    # self-links in the four forms on random nodes
    for _ in range(rng.randint(0, 3)):
        w = rng.choice(list(g.nodes))
        oa, ob = rng.choice([("+", "+"), ("+", "-"), ("-", "+"), ("-", "-")])
        g.add_link(w, oa, w, ob, 0, rng=rng)
    if rng.random() < 0.3 and g.links:
        a, oa, b, ob, ov, tags = rng.choice(g.links)
        if a != b:
            g.links.append([b, rgfa.FLIP[ob], a, rgfa.FLIP[oa], ov, list(tags)])
    decorate(g, rng, sit)
    seq_in_file = rng.random() < 0.8
    gpath = os.path.join(casedir, "in.gfa" + (".gz" if rng.random() < 0.15 else ""))
    stale = None
    if not big and rng.random() < 0.2:
        # the output of an earlier order_gfa run (other order, other graph version) is ordered again
        stale = {n: (rng.randint(0, 50), rng.randint(0, 5)) for n in g.nodes}
        sit["input_with_stale_bo_no"] += 1
    if not big and rng.random() < 0.15:
        # LN / SO / SR written as valid but not shortest-form integers (zero-padded, explicit '+')
        g.noncanonical_ints = True
        sit["graphs_with_noncanonical_integer_text"] += 1
    g.write(gpath, rng=rng, shuffle=rng.random() < 0.4, interleave=rng.random() < 0.3, with_seq=seq_in_file, bo_no=stale)
    src = rg.read(gpath)
    named = OC.components_of(g)
    order = list(named)
    rng.shuffle(order)
    by_chrom = rng.random() < 0.5
    with_seq = rng.random() < 0.5
    sit["with_sequence_runs" if with_seq else "without_sequence_runs"] += 1
    sit["by_chrom_runs" if by_chrom else "complete_file_runs"] += 1
    run = OC.run_order(gpath, os.path.join(casedir, "out"), order, by_chrom, with_seq)
    if run.outcome["kind"] != "ok":
        viol.append({"kind": "order_failed", "msg": f"order_gfa on a general-GFA decorated chain graph: {run.outcome}",
                     "witness": {"outcome": run.outcome, "tb": run.tb[-700:]}})
        return
    infos = {c: OC.classify(g, named[c], c) for c in order}
    # a single-segment component is always written (it is its own one-element chain)
    written = [c for c in order if infos[c]["in_domain"] or infos[c]["reason"] == "single_node"]
    gf = OC.parse_gfa_outputs(run)
    cs = OC.parse_csv_outputs(run)
    targets = [(c, named[c]) for c in written] if by_chrom else [("complete", set().union(*[named[c] for c in written]) if written else set())]
    for key, nodes in targets:
        if key not in gf:
            viol.append({"kind": "missing_output", "msg": f"no GFA output for {key}; files: {sorted(run.files)}"})
            continue
        out, text = gf[key]
        M.hit("order_files_judged")
        kinds = out.line_kinds
        if any(k not in ("S", "L") for k in kinds):
            viol.append({"kind": "unexpected_line", "msg": f"{key}: line kinds {sorted(set(kinds))}"})
        if "L" in kinds and "S" in kinds[kinds.index("L"):]:
            viol.append({"kind": "s_after_l", "msg": f"{key}: an S line follows an L line"})
        compare_graph(src, out, nodes, with_seq and seq_in_file, viol, f"order_gfa {key}")
        tags = OC.bo_no_of(out)
        seq = [tags[s] for s in out.segments if tags[s][0] is not None]
        if seq != sorted(seq):
            viol.append({"kind": "s_order", "msg": f"{key}: S lines not in (BO, NO) order"})
        rows = cs.get(key)
        if rows is None:
            viol.append({"kind": "missing_csv", "msg": f"no CSV for {key}"})
            continue
        body = [r for r in rows if r and r[0] != "Name"]
        names_ = [r[0] for r in body]
        M.hit("csv_rows_judged", len(body))
        if sorted(names_) != sorted(nodes):
            viol.append({"kind": "csv_rows", "msg": f"{key}: CSV lists {len(names_)} rows for {len(nodes)} nodes (duplicates: {len(names_) - len(set(names_))})"})
        artic = set().union(*[infos[c]["ro"]["artic"] for c in written]) if written else set()
        singles = {n for c in written if infos[c]["reason"] == "single_node" for n in named[c]}
        for r in body:
            if len(r) != 6 or r[0] not in tags:
                viol.append({"kind": "csv_row_shape", "msg": f"{key}: CSV row {r}"})
                break
            if (int(r[4]), int(r[5])) != tags[r[0]]:
                viol.append({"kind": "csv_bo_no", "msg": f"{key}: CSV row {r} but GFA has BO/NO {tags[r[0]]}"})
                break
            role = "orange" if r[0] in artic else "blue"
            if r[0] in singles:
                continue  # the lone segment of a single-segment chromosome: either role is accepted
            if r[1] != role:
                viol.append({"kind": "csv_role", "msg": f"{key}: node {r[0]} coloured {r[1]}, reference role says {role}"})
                break
    if any(n.extra for n in g.nodes.values()) and any((l[1], l[3]) != ("+", "+") for l in g.links):
        sigs.append(stable_hash(open(gpath, "rb").read()))


def part_b(ctx, rng, casedir, sit, viol, sigs):
    from vf.props import c14
    g = rgfa.gen_rgfa(rng, size=rng.choice(["small", "medium"]), dup_decl=False)
    decorate(g, rng, sit)
    f1 = os.path.join(casedir, "rt_in.gfa")
    g.write(f1, rng=rng, shuffle=rng.random() < 0.5, interleave=rng.random() < 0.3, with_seq=rng.random() < 0.8)
    src = rg.read(f1)
    from gaftools.gfa import GFA
    M.hit("roundtrips_judged")
    try:
        a = GFA(f1)
    except Exception as e:  # noqa: BLE001
        import traceback
        viol.append({"kind": "load_failed", "msg": f"GFA() on a valid general GFA raised {type(e).__name__}: {e}",
                     "witness": {"exc": type(e).__name__, "message": str(e)[:300], "tb": traceback.format_exc()[-500:]}})
        return
    f2 = os.path.join(casedir, "rt_out.gfa")
    a.write_gfa(output_file=f2)
    b = GFA(f2)
    if not (a.is_equal_to(b) and b.is_equal_to(a)):
        viol.append({"kind": "roundtrip_is_equal_to", "msg": "GFA(f).write_gfa(g); GFA(g).is_equal_to(GFA(f)) is False"})
    out = rg.read(f2)
    compare_graph(src, out, set(src.segments), True, viol, "round trip", expect_bo=False)
    if any(n.extra for n in g.nodes.values()) and any((l[1], l[3]) != ("+", "+") for l in g.links):
        sigs.append(stable_hash(open(f1, "rb").read()))


def run_case(ctx, rng, index, casedir):
    sit = collections.Counter()
    viol = []
    sigs = []
    part_a(ctx, rng, casedir, sit, viol, sigs, big=(index == 0))
    part_b(ctx, rng, casedir, sit, viol, sigs)
    return {"sigs": sigs, "evals": 2, "situations": dict(sit), "violations": viol,
            "sample": {"note": "one order_gfa run on a decorated chain graph + one library round trip"}}
