"""C02 — Conversion is lossless: round trips and untouched columns.

Boundary recorder over chained real `view --format` runs U -> S -> U' -> S' on files of canonical
'+'-strand walk alignments: one record per input record in input order (unique read names),
columns 1-4 / 10-12 and every non-CIGAR optional field unchanged, U' == U and S' == S as strings.
The C01 contracts stay attached to localise a failure.
"""

import collections
import os
from vf.util import vary_name  # noqa: E402

from vf import monitor as M
from vf.cli import run_cli
from vf.gen import rgfa, gaf as ggaf
from vf.props import conv_common as CC
from vf.ref import gaf as rgaf
from vf.util import stable_hash, read_text

ID = "C02"
LEVEL = "exploration"
RULE = ("per case one generated rGFA and one GAF file of 1-400 (thorough: up to 5000) canonical "
        "'+'-strand walk alignments (alignment touches first and last node), safe-class tags, "
        "unique read names; chained real runs U->S->U'->S'; an evaluation is one record compared "
        "in one direction; non-trivial = record whose stable form differs in shape from its "
        "unstable form (collapsed to a contig, strand-flipped, or intervals merged); distinct by "
        "(graph signature, record line)")
ASSUMPTIONS = ["optional fields from the safe class (values in [A-Za-z0-9.]+, one cg:Z, no repeats) "
               "and read names without spaces: tag-grammar fidelity is C16's subject",
               "canonical = alignment touches its first and last node"]


def plan(tier):
    return {"cases": 800 if tier == "quick" else 18000, "shards": 16,
            "shard_budget_s": 300 if tier == "quick" else 3300}


def required(tier):
    return ["post:to_stable", "post:to_unstable", "roundtrip_U_S_U", "roundtrip_S_U_S",
            "shape_collapsed", "shape_strand_flipped", "shape_merged", "file_ge_100_records",
            "bgzf_input"]


def setup(ctx):
    CC.install_conversion_contracts()


UNTOUCHED = (0, 1, 2, 3, 9, 10, 11)


def compare_untouched(ins, outs, viol, who):
    if len(ins) != len(outs):
        viol.append({"kind": "record_count", "msg": f"{who}: {len(ins)} records in, {len(outs)} out",
                     "witness": {"n_in": len(ins), "n_out": len(outs)}})
    for i, (a, b) in enumerate(zip(ins, outs)):
        if a.qname != b.qname:
            viol.append({"kind": "record_order", "msg": f"{who}: record {i}: read {a.qname} in, {b.qname} out"})
            return
        ma, mb = a.mandatory(), b.mandatory()
        bad = [k + 1 for k in UNTOUCHED if ma[k] != mb[k]]
        if bad:
            viol.append({"kind": "untouched_column", "msg": f"{who}: read {a.qname}: column(s) {bad} changed: {ma} -> {mb}"})
        if a.fields_without("cg") != b.fields_without("cg"):
            viol.append({"kind": "optional_fields", "msg": f"{who}: read {a.qname}: optional fields {a.fields_without('cg')} -> {b.fields_without('cg')}"})
        ia = [f.split(":", 1)[0] for f in a.fields]
        ib = [f.split(":", 1)[0] for f in b.fields]
        if ia != ib:
            viol.append({"kind": "field_order", "msg": f"{who}: read {a.qname}: field order {ia} -> {ib}"})


def run_case(ctx, rng, index, casedir):
    sit = collections.Counter()
    viol = []
    g = rgfa.gen_rgfa(rng, size=rng.choice(["small", "medium", "medium"]), min_seg=1)
    gpath = g.write(os.path.join(casedir, vary_name(rng, "g.gfa") + (".gz" if rng.random() < 0.2 else "")), rng=rng, shuffle=rng.random() < 0.5,
                    with_seq=rng.random() >= 0.2,
                    bo_no=({n: (rng.randint(0, 40), rng.randint(0, 6)) for n in g.nodes} if rng.random() < 0.15 else None))
    M.CTX["coords"] = rgaf.Coords(g)
    hi = 400 if ctx.tier == "quick" else rng.choice([400, 1500, 5000])
    nrec = rng.choice([1, 2, 3, rng.randint(4, 40), rng.randint(40, hi)])
    if rng.random() < 0.03:
        nrec = 0  # "any number of records": an empty file converts to an empty file
        sit["zero_record_files"] += 1
    million = ctx.tier == "thorough" and index == 0
    if million:
        nrec = 1_000_000 + rng.randint(5, 60)  # whole-genome GAFs have millions of records
        sit["files_gt_1000000_records"] += 1
    # a compressed file of several MiB in which every multiple of 1 MiB of the decompressed stream falls
    # exactly behind a record's line terminator (block-wise readers: blocks that end on a record end);
    # 4.3 MiB on every change, 33 MiB in the thorough tier
    aligned = index == 11
    if aligned:
        target = (4 << 20) + 300_000 if ctx.tier == "quick" else (33 << 20)
        nrec = target // 400 + 50
        sit["files_with_records_ending_on_MiB_boundaries"] += 1
    walks = ggaf.make_walks(g, rng, nrec, maxlen=rng.choice([4, 12]) if not (million or aligned) else 2, forced=nrec >= 6)
    recs = [ggaf.make_record(g, rng, w, f"r{index}_{i}", offsets="canonical", tags=rng.choice(["safe", "grammar_plain"])) for i, w in enumerate(walks)]
    if len(recs) >= 100:
        sit["file_ge_100_records"] += 1
    mode = rng.choice(["plain", "bgzf", "pysam"])
    u_lines = [r.line for r in recs]
    if aligned:
        mode = rng.choice(["bgzf", "pysam"])
        u_lines, hits = ggaf.align_records([l for l in u_lines if len(l) < 1900], unit=1 << 20, min_len=400)
        sit["record_ends_on_MiB_boundaries"] += hits
        for r, l in zip(recs, u_lines):
            r.line = l
        recs = recs[:len(u_lines)]
    if mode != "plain":
        sit["bgzf_input"] += 1
    U = os.path.join(casedir, vary_name(rng, "U.gaf") + ("" if mode == "plain" else ".gz"))
    ggaf.write_gaf(U, u_lines, mode=mode, rng=rng, layout=rng.choice(["standard", "tiny", "line_start"]) if not aligned else "standard",
                   **({"final_newline": True} if aligned else {}))
    u_recs = [rgaf.Rec(l) for l in u_lines]
    S, U2, S2 = (os.path.join(casedir, n) for n in ("S.gaf", "U2.gaf", "S2.gaf"))
    chain = [("U->S", U, S, "stable"), ("S->U'", S, U2, "unstable"), ("U'->S'", U2, S2, "stable")]
    texts = {}
    ok = True
    outcomes = collections.Counter()
    for who, src, dst, fmt in chain:
        if who == "U->S" and (million or rng.random() < 0.15):
            # default output (stdout), for the big file as an interactive user would run it
            o = run_cli(["view", src, "-g", gpath, "-f", fmt], tty_stderr=True if million else None)
            if o.ok:
                with open(dst, "w") as f:
                    f.write(o.stdout)
            sit["stdout_output_runs"] += 1
        else:
            o = run_cli(["view", src, "-g", gpath, "-f", fmt, "-o", dst])
        outcomes[f"{who}:{o.kind}"] += 1
        if not o.ok:
            viol.append({"kind": "view_failed", "msg": f"{who}: {o.brief()}", "witness": {"tb": o.tb[-600:]}})
            ok = False
            break
        texts[dst] = read_text(dst)
    evals = 0
    sigs = []
    if ok:
        try:
            s_recs = rgaf.parse_file_text(texts[S])
            u2_recs = rgaf.parse_file_text(texts[U2])
            s2_recs = rgaf.parse_file_text(texts[S2])
        except Exception as e:
            viol.append({"kind": "malformed_output", "msg": f"output not parseable: {e}"})
            s_recs = None
        if s_recs is not None:
            compare_untouched(u_recs, s_recs, viol, "U->S")
            compare_untouched(s_recs, u2_recs, viol, "S->U'")
            u2_lines = texts[U2].split("\n")[:-1]
            s_lines = texts[S].split("\n")[:-1]
            s2_lines = texts[S2].split("\n")[:-1]
            gsig = stable_hash(g.signature())
            for i, (a, b) in enumerate(zip(u_lines, u2_lines)):
                M.hit("roundtrip_U_S_U")
                evals += 1
                if a != b:
                    viol.append({"kind": "roundtrip_USU", "msg": f"U->S->U' changed record {i}: {a[:200]!r} -> {b[:200]!r}",
                                 "witness": {"U": a[:400], "S": s_lines[i][:400] if i < len(s_lines) else None, "U2": b[:400]}})
            for i, (a, b) in enumerate(zip(s_lines, s2_lines)):
                M.hit("roundtrip_S_U_S")
                evals += 1
                if a != b:
                    viol.append({"kind": "roundtrip_SUS", "msg": f"S->U->S' changed record {i}: {a[:200]!r} -> {b[:200]!r}",
                                 "witness": {"S": a[:400], "S2": b[:400]}})
            if len(u2_lines) != len(u_lines) or len(s2_lines) != len(s_lines):
                viol.append({"kind": "record_count", "msg": f"chain lost/added records: U {len(u_lines)} S {len(s_lines)} U' {len(u2_lines)} S' {len(s2_lines)}"})
            for r, s in zip(recs, s_recs):
                shaped = False
                if ">" not in s.path and "<" not in s.path:
                    sit["shape_collapsed"] += 1
                    shaped = True
                if s.strand == "-":
                    sit["shape_strand_flipped"] += 1
                    shaped = True
                if (s.path.count(">") + s.path.count("<")) < len(r.walk) and (">" in s.path or "<" in s.path):
                    sit["shape_merged"] += 1
                    shaped = True
                if shaped:
                    sigs.append(stable_hash([gsig, r.line]))
    M.CTX.clear()
    return {"sigs": sigs, "evals": max(evals, 1), "situations": dict(sit), "violations": viol,
            "outcomes": dict(outcomes),
            "sample": {"records": len(recs), "gaf_mode": mode, "first": (u_lines[0][:200] if u_lines else None)}}
