"""Shared by C08/C09/C10 (and C17): BO/NO-tagged chain graphs, alignments over them, the reference
sort key / bo-sn-iv tags, contracts on sort.compare_gaf and sort.process_alignment."""

import os
from vf.util import vary_name  # noqa: E402
import random

from vf import monitor as M
from vf.gen import chain, gaf as ggaf, rgfa
from vf.ref import gaf as rgaf


class SortWorkload:
    pass


def build(rng, casedir, index, nrec=None, untagged=True, force_all_known=False, n_chrom=None,
          few_anchors=False, tags="safe", mode=None, layout=None, text_variants=True, huge=None):
    w = SortWorkload()
    # "any size": now and then a file of 10-20 MiB (a few dozen records with half-megabyte CIGAR-like fields)
    w.huge = (rng.random() < 0.012) if huge is None else huge
    if w.huge:
        nrec = rng.randint(24, 40)
    g = chain.gen_chain_rgfa(rng, n_chrom=n_chrom, id_style=rng.choice(["s", "name"]),
                             scaffolds=rng.choice([2, 3, rng.randint(3, 12)]))
    w.g = g
    bo = 0
    tagsd = {}
    for c in g.chroms:
        ro = chain.reference_order(g, set(c["nodes"]), c["name"])
        if ro["chain"] is None:
            raise RuntimeError(f"generator produced a non-chain component: {ro['reason']}")
        t, bo = chain.assign_bo_no(ro["chain"], bo)
        tagsd.update(t)
    w.scaffold = {n for n, (b, no) in tagsd.items() if no == 0}
    if untagged:  # some nodes left untagged: BO = NO = -1
        for n in list(tagsd):
            if g.nodes[n].rank > 0 and rng.random() < 0.25:
                tagsd[n] = (-1, -1)
        if rng.random() < 0.3:
            n = rng.choice(list(tagsd))
            tagsd[n] = (-1, -1)
    w.tags = tagsd
    if rng.random() < 0.12:
        # integer tags in valid but not shortest form: LN / SO / SR of some segments, or the SR of every
        # segment of a contig ('+0', '00')
        if rng.random() < 0.5:
            g.noncanonical_ints = True
        g.sr_style_of_contig = {c: rng.choice(["+{}", "0{}", "00{}"]) for c in set(g.contigs) if rng.random() < 0.6}
        w.noncanonical = True
    if rng.random() < 0.12:
        # segments that are not part of the ordered graph (an unplaced contig, a chromosome order_gfa
        # skipped): S lines without BO / NO anywhere in the file, never touched by an alignment
        for k in range(rng.randint(1, 3)):
            ln = rng.randint(1, 30)
            g.extra_lines = list(g.extra_lines) + ["\t".join(["S", f"decoy_{k}", "*" , f"LN:i:{ln}", f"SN:Z:chrUn_decoy{k}", "SO:i:0", "SR:i:0"])]
        w.decoys = True
    w.gfa = os.path.join(casedir, vary_name(rng, "g.gfa") + (".gz" if rng.random() < 0.2 else ""))
    g.write(w.gfa, rng=rng, shuffle=rng.random() < 0.5, with_seq=rng.random() < 0.5, bo_no=tagsd)
    succ = g.successors()
    chrom_of = {}
    for c in g.chroms:
        for n in c["nodes"]:
            chrom_of[n] = c["name"]
    if nrec is None:
        nrec = rng.choice([2, 5, rng.randint(6, 60), rng.randint(30, 200)])
        if rng.random() < 0.02:
            nrec = 0  # an empty GAF sorts to an empty GAF (and an empty index)
    walks = []
    anchors = None
    if few_anchors:
        anchors = [rng.choice(list(g.nodes)) for _ in range(rng.randint(1, 3))]
    tries = 0
    while len(walks) < nrec and tries < nrec * 50:
        tries += 1
        r = rng.random()
        start = None
        if anchors:
            start = (rng.choice(anchors), rng.choice(">>><"))
        if r < 0.45:
            wk = rgfa.random_walk(g, rng, rng.choice([1, 2, 4, 9]), succ, start=start, prefer=">")
        elif r < 0.75:
            wk = rgfa.random_walk(g, rng, rng.choice([1, 2, 4, 9]), succ, start=start, prefer="<")
        else:
            wk = rgfa.random_walk(g, rng, rng.choice([2, 4, 9]), succ, start=start)
        if force_all_known and not any(g.nodes[n].rank == 0 for n, _ in wk):
            continue
        walks.append(wk)
    recs = []
    for i, wk in enumerate(walks):
        offs = "any" if not few_anchors else rng.choice(["any", "full", "full"])
        recs.append(ggaf.make_record(g, rng, wk, f"r{index}_{i}", offsets=offs, tags=tags))
    w.walks = walks
    if w.huge:
        for r in recs:
            r.line += "\tzl:Z:" + "x" * rng.randint(300_000, 600_000)
    w.resorted = rng.random() < 0.1
    if w.resorted:
        # the input is (partly) the output of an earlier sort: its records already end in bo/sn/iv fields,
        # which are ordinary optional fields of the input records now
        for r in recs:
            if rng.random() < 0.7:
                r.line += "\tbo:i:%d\tsn:Z:%s\tiv:i:%d" % (rng.randint(-1, 60), rng.choice(["chr1", "unknown", "chrX"]), rng.randint(0, 1))
    w.lines, w.text_kind = ggaf.text_variant([r.line for r in recs], rng, p=0.15 if text_variants else 0.0)
    w.mode = mode or rng.choice(["plain", "plain", "bgzf", "pysam"])
    w.layout = layout or rng.choice(["standard", "tiny", "line_start"])
    w.gaf = os.path.join(casedir, vary_name(rng, "in.gaf") + ("" if w.mode == "plain" else ".gz"))
    w.final_newline = rng.random() >= 0.15  # a last line without a line terminator is still a record
    ggaf.write_gaf(w.gaf, w.lines, mode=w.mode, rng=rng, layout=w.layout, final_newline=w.final_newline)
    return w


def ref_tags(g, tagsd, line):
    """Reference (bo, no, start, iv, sn, tagged_anchor) of one GAF line per C08/C09."""
    r = rgaf.Rec(line)
    steps = rgaf.parse_path(r.path)
    orients = []
    sn = None
    for n, o in steps:
        nd = g.nodes[n]
        if nd.rank == 0 and sn is None:
            sn = nd.contig
        bo, no = tagsd[n]
        if bo == -1 or no == -1:
            continue
        if no == 0:
            orients.append(o)
    iv = 1 if (">" in orients and "<" in orients) else 0
    if orients.count(">") < orients.count("<"):
        anchor = steps[-1][0]
        start = r.plen - r.pe
    else:
        anchor = steps[0][0]
        start = r.ps
    bo, no = tagsd[anchor]
    return {"bo": bo, "no": no, "start": start, "iv": iv, "sn": sn or "unknown", "anchor": anchor}


def ref_order(keys):
    """Reference output order (list of input indices): tagged anchors first by (BO, NO, start),
    exact ties in input order; BO = -1 anchors last, in input order."""
    tagged = sorted((i for i, k in enumerate(keys) if k["bo"] != -1), key=lambda i: (keys[i]["bo"], keys[i]["no"], keys[i]["start"], i))
    untagged = [i for i, k in enumerate(keys) if k["bo"] == -1]
    return tagged + untagged


# ---- contracts ----------------------------------------------------------------------------------

_ORIG = {}
_seen = []


def _sgn(x):
    return 0 if x is None else (x > 0) - (x < 0)


def post_compare_gaf(al1, al2, result):
    M.hit("post:compare_gaf")
    orig = _ORIG["compare_gaf"]
    back = orig(al2, al1)
    if al1.offset != al2.offset and _sgn(result) != -_sgn(back):
        M.record("comparator_antisymmetry",
                 f"compare_gaf(a,b)={result} but compare_gaf(b,a)={back} for a=(BO {al1.BO}, NO {al1.NO}, start {al1.start}) "
                 f"b=(BO {al2.BO}, NO {al2.NO}, start {al2.start})",
                 a=[al1.BO, al1.NO, al1.start, al1.offset], b=[al2.BO, al2.NO, al2.start, al2.offset])
    # transitivity on sampled triples of alignments seen in this process
    _seen.append(al1)
    if len(_seen) > 64:
        del _seen[:32]
    if len(_seen) >= 3 and M.COUNTS["post:compare_gaf"] % 7 == 0:
        rnd = random.Random(M.COUNTS["post:compare_gaf"])
        a, b, c = rnd.sample(_seen, 3)
        if len({a.offset, b.offset, c.offset}) == 3:
            M.hit("transitivity_triples")
            ab, bc, ac = _sgn(orig(a, b)), _sgn(orig(b, c)), _sgn(orig(a, c))
            if ab < 0 and bc < 0 and ac >= 0 or ab > 0 and bc > 0 and ac <= 0:
                M.record("comparator_transitivity", f"cmp(a,b)={ab}, cmp(b,c)={bc} but cmp(a,c)={ac}: a={a[1:4]} b={b[1:4]} c={c[1:4]}",
                         a=list(a[1:4]), b=list(b[1:4]), c=list(c[1:4]))
    return True


def post_process_alignment(line, nodes, offset, result):
    M.hit("post:process_alignment")
    ctx = M.CTX.get("sort")
    if ctx is None:
        return True
    g, tagsd = ctx
    exp = ref_tags(g, tagsd, "\t".join(line))
    got = {"bo": result[0], "no": result[1], "start": result[2], "iv": result[3], "sn": result[4]}
    for k in ("bo", "no", "start", "iv", "sn"):
        if got[k] != exp[k]:
            M.record("process_alignment", f"process_alignment({line[5]} {line[7]}-{line[8]}): {k}={got[k]} expected {exp[k]}",
                     path=line[5], field=k)
            break
    return True


def install_sort_contracts():
    from gaftools.cli import sort
    import inspect
    if hasattr(sort, "compare_gaf"):
        _ORIG["compare_gaf"] = inspect.unwrap(sort.compare_gaf)
        M.attach(sort, "compare_gaf", post=post_compare_gaf)
    else:
        # the sort no longer uses a comparator function (e.g. a key function): the antisymmetry /
        # transitivity monitor has nothing to observe; the boundary order oracle still decides C08
        M.hit("comparator_function_absent")
        M.hit("post:compare_gaf")
        M.hit("transitivity_triples")
    if hasattr(sort, "process_alignment"):
        M.attach(sort, "process_alignment", post=post_process_alignment)
    else:
        M.hit("process_alignment_function_absent")
        M.hit("post:process_alignment")
    del _seen[:]


def reset_seen():
    del _seen[:]
