"""Shared by C01/C02/C04/C16/C17: contracts on the real conversion functions and the per-record
coordinate-conversion oracle (same locus, path length column, CIGAR reversal biconditional)."""

import copy

from vf import monitor as M
from vf.ref import gaf as rgaf


class Snap:
    """copy of the fields of an Alignment before the real call mutates strand / tags"""

    def __init__(self, a):
        self.strand = a.strand
        self.path = a.path
        self.plen, self.ps, self.pe = a.path_length, a.path_start, a.path_end
        self.cigar = a.cigar
        self.tags = dict(a.tags) if a.tags is not None else {}
        self.qname = a.query_name

    def rec(self):
        r = rgaf.Rec.__new__(rgaf.Rec)
        r.strand, r.path, r.plen, r.ps, r.pe = self.strand, self.path, self.plen, self.ps, self.pe
        return r


def snap_line(gaf_line):
    return Snap(gaf_line)


def judge_conversion(coords, rin, rout, in_cigar, out_cigar, who):
    """rin/rout expose strand, path, plen, ps, pe. Returns list of (kind, msg)."""
    out = []
    tin, lin = coords.target(rin)
    if tin is None:
        return [("oracle_input_unspellable", f"{who}: input record not spellable: {lin}")]
    if rin.pe == rin.ps:
        return []
    tout, lout = coords.target(rout)
    if tout is None:
        return [("output_unspellable", f"{who}: output path {rout.path} {rout.ps}-{rout.pe}: {lout}")]
    if tout != tin:
        out.append(("locus_string", f"{who}: target bases differ: in {rin.strand}{rin.path}[{rin.ps}:{rin.pe}] = {tin[:40]}..., "
                                    f"out {rout.strand}{rout.path}[{rout.ps}:{rout.pe}] = {tout[:40]}..."))
    elif lout != lin:
        out.append(("locus_identity", f"{who}: same string but different locus: in {lin[:3]}.. out {lout[:3]}.. "
                                      f"({rin.path} -> {rout.path})"))
    total = coords.path_total(rout.path)
    if total is not None and rout.plen != total:
        out.append(("path_length", f"{who}: path length column {rout.plen} but {rout.path} spells {total} bases"))
    flipped = rin.strand != rout.strand
    if in_cigar is not None and in_cigar != "":
        exp = rgaf.cigar_reversed(in_cigar) if flipped else in_cigar
        if out_cigar != exp:
            out.append(("cigar_reversal", f"{who}: strand {rin.strand}->{rout.strand} (flipped={flipped}) but CIGAR {in_cigar[:30]} -> {str(out_cigar)[:30]}"))
    return out


# ---- contracts ----------------------------------------------------------------------------------

def _result_rec(result):
    try:
        return rgaf.Rec(result)
    except Exception as e:  # malformed output line
        M.record("malformed_output", f"converted line not parseable: {e}: {result[:120]!r}")
        return None


def post_to_stable(gaf_line, nodes, ref_contig, contig_len, result, OLD):
    M.hit("post:to_stable")
    coords = M.CTX.get("coords")
    if coords is None or M.CTX.get("no_convert_contract"):
        return True
    r = _result_rec(result)
    if r is None:
        return True
    for kind, msg in judge_conversion(coords, OLD.rec.rec(), r, OLD.rec.cigar or None, r.cigar(), "to_stable"):
        M.record(kind, msg, read=OLD.rec.qname)
    return True


def post_to_unstable(gaf_line, reference, result, OLD):
    M.hit("post:to_unstable")
    coords = M.CTX.get("coords")
    if coords is None or M.CTX.get("no_convert_contract"):
        return True
    r = _result_rec(result)
    if r is None:
        return True
    if OLD.rec.strand == "-" and ":" not in OLD.rec.path:
        M.hit("to_unstable_bare_minus")
    for kind, msg in judge_conversion(coords, OLD.rec.rec(), r, OLD.rec.cigar or None, r.cigar(), "to_unstable"):
        M.record(kind, msg, read=OLD.rec.qname)
    return True


def post_merge_nodes(node1, node2, orient1, orient2, result):
    M.hit("post:merge_nodes")
    touching = (node1.contig_id == node2.contig_id and orient1 == orient2 and
                ((orient1 == ">" and node1.end == node2.start) or (orient1 == "<" and node1.start == node2.end)))
    if result is False:
        if touching:
            M.record("merge_nodes", "touching same-contig same-orientation intervals were not merged")
        return True
    n, o = result
    if not touching:
        M.record("merge_nodes", f"merged non-touching / different intervals {node1.to_string(orient1)} {node2.to_string(orient2)}")
    elif (n.contig_id, n.start, n.end, o) != (node1.contig_id, min(node1.start, node2.start), max(node1.end, node2.end), orient1):
        M.record("merge_nodes", f"merge of {node1.to_string(orient1)} and {node2.to_string(orient2)} gave {n.to_string(o)}")
    else:
        M.hit("merged")
    return True


def post_search_intervals(intervals, query_start, query_end, start, end, result):
    M.hit("post:search_intervals")
    lo, hi = result
    for i in range(max(0, start), min(end, len(intervals) - 1) + 1):
        s = int(intervals[i].tags["SO"][1])
        e = s + int(intervals[i].tags["LN"][1])
        if s < query_end and query_start < e and not (lo <= i <= hi):
            M.record("search_intervals", f"segment {i} [{s},{e}) overlaps query [{query_start},{query_end}) but window is {result}")
            break
    return True


def post_reverse_cigar(cg, result):
    M.hit("post:reverse_cigar")
    exp = rgaf.cigar_reversed(cg)
    if exp is not None and result != exp:
        M.record("reverse_cigar", f"reverse_cigar({cg[:40]}) = {result[:40]} expected {exp[:40]}")
    return True


def install_conversion_contracts():
    from gaftools import conversion, utils
    from gaftools.cli import view
    M.attach([conversion, view], "to_stable", post=post_to_stable, snapshots=[(snap_line, "rec")])
    M.attach([conversion, view], "to_unstable", post=post_to_unstable, snapshots=[(snap_line, "rec")])
    M.attach(conversion, "merge_nodes", post=post_merge_nodes, optional=True)
    M.attach(utils, "search_intervals", post=post_search_intervals, optional=True)
    M.attach(utils, "reverse_cigar", post=post_reverse_cigar, optional=True)
    for text, name in (("cases = 1", "overlap_case1"), ("cases = 2", "overlap_case2"), ("cases = 3", "overlap_case3")):
        M.PROBES.count_text(conversion.to_unstable, text, name)
