"""C04 — view --node returns exactly the records touching the nodes.

Boundary outcome classification of the real `gaftools view GAF -n ...` runs against the expected
list (records traversing >= 1 named node, each once, file order); --format clause as a metamorphic
relation between two real runs (convert-whole-file-then-select vs select-and-convert); whole-file
view reproduces the file.
"""

import collections
import os

from vf import monitor as M
from vf.cli import run_cli
from vf.props import view_common as VC
from vf.util import stable_hash, read_text

ID = "C04"
LEVEL = "exploration"
RULE = ("per case one indexed GAF (stable/unstable x plain/BGZF) and 6-14 node-list queries: single "
        "aligned node, single unaligned node, mixed lists of 2-8 nodes in any order with repeats, "
        "all-unaligned lists, nodes that a record visits twice (single-node and multi-node path), "
        "with and without --format, plus one whole-file view; an evaluation is one query; "
        "non-trivial = query whose expected selection is a non-empty proper subset of the file or "
        "involves an unaligned node; distinct by (GAF text, node list, format)")
ASSUMPTIONS = ["safe-class optional fields and always a cg:Z field (tag fidelity is C16's subject)",
               "named nodes exist in the graph", "the index is the one written by the real `gaftools index` (C03)"]


def plan(tier):
    return {"cases": 1000 if tier == "quick" else 60000, "shards": 16,
            "shard_budget_s": 300 if tier == "quick" else 3300}


def required(tier):
    return ["q:single_aligned", "q:single_unaligned", "q:mixed", "q:all_unaligned", "q:revisit_single",
            "q:revisit_multi", "q:with_format", "q:whole_file", "q:repeats", "expected_reported_nothing_found",
            "selection_gt_1000_records", "reindexed_same_paths"]


def setup(ctx):
    pass


def run_query(w, nodes, fmt, casedir, k, rng):
    out = os.path.join(casedir, f"q{k}.gaf")
    argv = ["view", w.gaf]
    for n in nodes:
        argv += ["-n", n]
    if fmt:
        argv += ["-g", w.gfa, "-f", fmt]
    if w.gvi != w.gaf + ".gvi":
        argv += ["-i", w.gvi]
    if rng.random() < 0.2:  # default output: stdout
        o = run_cli(argv)
        if o.ok:
            with open(out, "w") as f:
                f.write(o.stdout)
        return o, out
    argv += ["-o", out]
    return run_cli(argv), out


def run_case(ctx, rng, index, casedir):
    sit = collections.Counter()
    viol = []
    outcomes = collections.Counter()
    hub_case = rng.random() < 0.02  # a selection of well over a thousand records (alignments around a hub node)
    w = VC.build(rng, casedir, index, ctx.tier, nrec=rng.choice([1024, 2048, 4096, 8192, rng.randint(1300, 2600), rng.randint(1300, 2600)]) if hub_case else rng.choice([2, 5, rng.randint(6, 40)]),
                 unmapped=rng.random() < 0.25, **({"size": "small"} if hub_case else {}))
    if w.unmapped:
        sit["files_with_unmapped_records"] += 1
    o = VC.run_index(w, None if rng.random() < 0.7 else os.path.join(casedir, "x.gvi"))
    if not o.ok:
        # C03's subject; without an index there is nothing to judge here
        return {"sig": None, "nontrivial": False, "situations": {"index_failed": 1}, "violations": [],
                "outcomes": {"index:" + o.kind: 1}}
    fmt_avail = "unstable" if w.stable else "stable"
    # whole-file conversion once (metamorphic baseline)
    conv_lines = None
    conv_out = os.path.join(casedir, "whole_conv.gaf")
    oc = run_cli(["view", w.gaf, "-g", w.gfa, "-f", fmt_avail, "-o", conv_out])
    if oc.ok:
        conv_lines = read_text(conv_out).split("\n")[:-1]
        if len(conv_lines) != len(w.lines):
            conv_lines = None
    aligned = sorted(w.aligned)
    unaligned = w.unaligned
    revisit_nodes = sorted({n for wk in w.walks for n in [x for x, _ in wk] if [x for x, _ in wk].count(n) > 1} & w.aligned)
    queries = []
    if hub_case:
        cnt = collections.Counter(n for ns in w.nodesets for n in ns)
        hub = cnt.most_common(1)[0][0]
        queries.append(("hub", [hub]))
        queries.append(("hub", [hub, rng.choice(aligned)]))
        queries.append(("all_nodes", list(aligned)))  # selects every record: exactly the (often round) record count
    if aligned:
        queries.append(("single_aligned", [rng.choice(aligned)]))
    if unaligned:
        queries.append(("single_unaligned", [rng.choice(unaligned)]))
        queries.append(("all_unaligned", [rng.choice(unaligned) for _ in range(rng.randint(2, 4))]))
    if aligned and unaligned:
        for _ in range(2):
            ns = [rng.choice(aligned) for _ in range(rng.randint(1, 5))] + [rng.choice(unaligned) for _ in range(rng.randint(1, 3))]
            rng.shuffle(ns)
            queries.append(("mixed", ns))
    for n in revisit_nodes[:2]:
        queries.append(("revisit_single", [n]))
        queries.append(("revisit_multi", [n, rng.choice(aligned)]))
    for _ in range(rng.randint(2, 5)):
        ns = [rng.choice(aligned) for _ in range(rng.randint(2, 8))] if aligned else []
        if ns:
            if rng.random() < 0.5:
                ns.append(ns[0])
                sit["q:repeats"] += 1
            queries.append(("multi_aligned", ns))
    sigs = []
    fsig = stable_hash(w.lines)
    for k, (klass, nodes) in enumerate(queries):
        fmt = fmt_avail if (rng.random() < 0.4 and conv_lines is not None) else None
        sit["q:" + klass] += 1
        if fmt:
            sit["q:with_format"] += 1
        o, out = run_query(w, nodes, fmt, casedir, k, rng)
        outcomes[f"{klass}:{o.kind}"] += 1
        sel = VC.expected_selection(w, nodes)
        if len(sel) > 1000:
            sit["selection_gt_1000_records"] += 1
        wit = {"nodes": nodes, "format": fmt, "class": klass, "stable": w.stable, "mode": w.mode,
               "unaligned_in_query": [n for n in nodes if n not in w.aligned]}
        if not sel:
            sit["expected_reported_nothing_found"] += 1
            if not (o.kind == "reported" and "No alignments found" in o.message):
                viol.append({"kind": "nothing_found_not_reported",
                             "msg": f"-n {' '.join(nodes)} (no named node has alignments): expected the 'No alignments found' report, got {o.brief()}",
                             "witness": dict(wit, outcome=o.to_json())})
        elif not o.ok:
            viol.append({"kind": "query_failed", "msg": f"-n {' '.join(nodes)} ({klass}): {o.brief()}",
                         "witness": dict(wit, outcome=o.to_json())})
        else:
            got = read_text(out).split("\n")
            if got and got[-1] == "":
                got = got[:-1]
            if fmt:
                exp = [conv_lines[i] for i in sel]
            else:
                exp = [VC.expected_str_line(w.lines[i]) for i in sel]
            if got != exp:
                gn = [l.split("\t")[0] for l in got]
                en = [l.split("\t")[0] for l in exp]
                if gn != en:
                    dup = len(gn) != len(set(gn))
                    viol.append({"kind": "selection", "msg": f"-n {' '.join(nodes)} ({klass}): got reads {gn[:10]} expected {en[:10]}",
                                 "witness": dict(wit, got=gn[:30], expected=en[:30], duplicates=dup,
                                                 sorted_equal=sorted(set(gn)) == sorted(en))})
                else:
                    d = next(i for i in range(len(exp)) if got[i] != exp[i])
                    viol.append({"kind": "content", "msg": f"-n {' '.join(nodes)} fmt={fmt}: record {en[d]} differs: {got[d][:200]!r} vs {exp[d][:200]!r}",
                                 "witness": wit})
        if (sel and len(sel) < len(w.lines)) or wit["unaligned_in_query"]:
            sigs.append(stable_hash([fsig, nodes, fmt]))
    # whole-file view, neither selection nor format
    out = os.path.join(casedir, "whole.gaf")
    o = run_cli(["view", w.gaf, "-o", out])
    sit["q:whole_file"] += 1
    outcomes[f"whole:{o.kind}"] += 1
    if not o.ok:
        viol.append({"kind": "whole_file_failed", "msg": f"view GAF: {o.brief()}"})
    elif read_text(out).split("\n")[:-1] != [l.rstrip() for l in w.lines]:
        viol.append({"kind": "whole_file_differs", "msg": "view GAF without selection/format does not reproduce the file"})
    if not hub_case and len(w.lines) >= 2 and aligned and rng.random() < 0.2:
        # the GAF is replaced under the same name (other record order) and indexed again to the same
        # index path, in this very process: later queries must see the new file and the new index
        from vf.gen import gaf as ggaf
        perm = list(range(len(w.lines)))
        rng.shuffle(perm)
        w.lines = [w.lines[i] for i in perm]
        w.nodesets = [w.nodesets[i] for i in perm]
        ggaf.write_gaf(w.gaf, w.lines, mode=w.mode, rng=rng, layout=w.layout, final_newline=w.final_newline)
        o = VC.run_index(w, None if w.gvi == w.gaf + ".gvi" else w.gvi)
        sit["reindexed_same_paths"] += 1
        if o.ok:
            for k in range(3):
                nodes = [rng.choice(aligned) for _ in range(rng.randint(1, 3))]
                o2, out = run_query(w, nodes, None, casedir, 900 + k, rng)
                sel = VC.expected_selection(w, nodes)
                got = [l.split("\t")[0] for l in read_text(out).split("\n") if l] if o2.ok else f"<{o2.brief()}>"
                exp = [VC.expected_str_line(w.lines[i]).split("\t")[0] for i in sel]
                if got != exp:
                    viol.append({"kind": "selection_after_reindex", "msg": f"after replacing and re-indexing the GAF under the same paths: -n {' '.join(nodes)} gave {got if isinstance(got, str) else got[:8]}, expected {exp[:8]}",
                                 "witness": {"nodes": nodes, "got": got if isinstance(got, str) else got[:30], "expected": exp[:30]}})
    return {"sigs": sigs, "evals": len(queries) + 1, "situations": dict(sit), "violations": viol,
            "outcomes": dict(outcomes),
            "sample": {"stable": w.stable, "mode": w.mode, "queries": [(k, n) for k, n in queries[:4]]}}
