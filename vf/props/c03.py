"""C03 — The view index lists exactly the records that traverse each node.

Boundary oracle on the .gvi pickle written by the real `gaftools index`: offset(i) in index[n] <=>
record i traverses n; every key carries the node's contig and stable interval; every listed offset
resolves to exactly record i through the real GAF.read_line *and* through an independent
plain/BGZF reader.  Contracts on index.convert_coord and utils.search_intervals.
"""

import collections

from vf import bgzf, monitor as M
from vf.props import view_common as VC, conv_common as CC
from vf.ref import gaf as rgaf
from vf.util import stable_hash

ID = "C03"
LEVEL = "exploration"
RULE = ("per case one generated rGFA and one GAF over it (unstable, or stable in gaftools' form), "
        "1-60 records (thorough up to 2000), plain / multi-block BGZF (standard, tiny-block and "
        "line-start layouts; lines longer than a block) indexed by the real `gaftools index`; an "
        "evaluation is one (node, record) pair checked; non-trivial = file with >= 2 records whose "
        "node sets differ; distinct by (graph signature, GAF text, block layout)")
ASSUMPTIONS = ["set semantics for the offset lists (a repeated offset is not a C03 violation)",
               "stable inputs are produced by the reference conversion (self-checked against the spelling oracle)",
               "blank lines and records on unknown nodes are outside the domain"]


def plan(tier):
    return {"cases": 1600 if tier == "quick" else 100000, "shards": 16,
            "shard_budget_s": 300 if tier == "quick" else 3300}


def required(tier):
    return ["pairs_checked", "offsets_resolved_real", "offsets_resolved_ref", "stable_gaf",
            "unstable_gaf", "stable_with_separated_haplotype", "bgzf_multi_block", "plain",
            "post:search_intervals", "post:convert_coord", "boundary_touching", "revisit_record"]


def post_convert_coord(line, ref, result):
    M.hit("post:convert_coord")
    coords = M.CTX.get("coords")
    if coords is None:
        return True
    exp = rgaf.traversed_nodes(M.CTX["g"], coords, "\t".join(line))
    if set(result) != exp:
        M.record("convert_coord", f"convert_coord({line[5]} {line[7]}-{line[8]}) = {sorted(set(result))[:8]} expected {sorted(exp)[:8]}")
    return True


def setup(ctx):
    from gaftools.cli import index
    from gaftools import utils
    M.attach(index, "convert_coord", post=post_convert_coord, optional=True)
    M.attach(utils, "search_intervals", post=CC.post_search_intervals, optional=True)


def run_case(ctx, rng, index, casedir):
    sit = collections.Counter()
    viol = []
    big = ctx.tier == "thorough" and rng.random() < 0.1
    nrec = rng.randint(300, 2000) if big else None
    w = VC.build(rng, casedir, index, ctx.tier, nrec=nrec, long_lines=rng.random() < 0.25,
                 size="medium" if big else None, dotdot=rng.random() < 0.07)
    if w.dotdot:
        sit["gaf_named_through_symlinked_directory_and_dotdot"] += 1
    M.CTX["coords"], M.CTX["g"] = w.coords, w.g
    sit["stable_gaf" if w.stable else "unstable_gaf"] += 1
    if w.mode == "plain":
        sit["plain"] += 1
    elif w.blocks > 1:
        sit["bgzf_multi_block"] += 1
    sep = False
    if w.stable:
        for l in w.lines:
            for name in rgaf.Rec(l).path.replace("<", ">").split(">"):
                if ":" in name:
                    c = name.rpartition(":")[0]
                    segs = w.coords.by_contig[c]
                    if w.g.contigs[c] != 0 and any(a.end != b.so for a, b in zip(segs, segs[1:])):
                        sep = True
        if sep:
            sit["stable_with_separated_haplotype"] += 1
    for wk in w.walks:
        names = [n for n, _ in wk]
        if len(set(names)) < len(names):
            sit["revisit_record"] += 1
    out = None if rng.random() < 0.7 else casedir + "/custom.gvi"
    o = VC.run_index(w, out)
    outcomes = {f"index:{o.kind}": 1}
    evals = 0
    if not o.ok:
        viol.append({"kind": "index_failed", "msg": f"gaftools index ({'stable' if w.stable else 'unstable'} GAF): {o.brief()}",
                     "witness": {"stable": w.stable, "separated_haplotype_in_path": sep, "exc": o.exc_type,
                                 "where": o.exc_where, "tb": o.tb[-500:]}})
    else:
        ind = VC.load_index(w)
        ref_contig = ind.pop("ref_contig", None)
        if ref_contig is None or sorted(ref_contig) != sorted(w.g.ref_contigs()):
            viol.append({"kind": "ref_contig_entry", "msg": f"ref_contig entry {ref_contig} != {w.g.ref_contigs()}"})
        # independent readers
        if w.mode == "plain":
            data = open(w.gaf, "rb").read()
            def line_at(off):
                if not 0 <= off < len(data):
                    return None
                e = data.find(b"\n", off)
                return data[off:e if e != -1 else len(data)].decode()
        else:
            bi = bgzf.BgzfIndex(w.gaf)
            line_at = bi.line_at
        from gaftools.gaf import GAF
        real = GAF(w.gaf)
        by_node = {}
        for key, offs in ind.items():
            if not (isinstance(key, tuple) and len(key) == 4):
                viol.append({"kind": "index_key_shape", "msg": f"unexpected index key {key!r}"})
                continue
            nid, contig, s, e = key
            nd = w.g.nodes.get(nid)
            if nd is None or (nd.contig, nd.so, nd.end) != (contig, s, e):
                viol.append({"kind": "index_key", "msg": f"index key {key} does not match node {nid}: "
                                                         f"{(nd.contig, nd.so, nd.end) if nd else None}"})
            if nid in by_node:
                viol.append({"kind": "index_key_duplicate", "msg": f"two keys for node {nid}"})
            by_node[nid] = set(offs)
        # offset -> record id, through both readers
        line_index = {l: i for i, l in enumerate(w.lines)}
        off2rec = {}
        for nid, offs in by_node.items():
            for off in offs:
                if off in off2rec:
                    continue
                txt = line_at(off)
                M.hit("offsets_resolved_ref")
                i = line_index.get(txt)
                if i is None:
                    viol.append({"kind": "offset_not_a_record_start", "msg": f"offset {off} (node {nid}) resolves to {str(txt)[:80]!r} in the independent reader"})
                    off2rec[off] = None
                    continue
                try:
                    a = real.read_line(off)
                    M.hit("offsets_resolved_real")
                    exp = rgaf.Rec(w.lines[i])
                    if a is None or (a.query_name, a.path, a.path_start, a.path_end) != (exp.qname.split(" ")[0], exp.path, exp.ps, exp.pe):
                        viol.append({"kind": "read_line_mismatch", "msg": f"GAF.read_line({off}) returned {getattr(a, 'query_name', None)} expected {exp.qname}"})
                except Exception as e:  # noqa: BLE001
                    viol.append({"kind": "read_line_failed", "msg": f"GAF.read_line({off}) raised {type(e).__name__}: {e}"})
                off2rec[off] = i
        try:
            real.close()
        except OSError:
            pass  # a reader that was seeked to an invalid offset cannot be closed cleanly
        for nid in w.g.nodes:
            exp = {i for i, s in enumerate(w.nodesets) if nid in s}
            got = {off2rec[o] for o in by_node.get(nid, ()) if off2rec.get(o) is not None}
            evals += len(w.lines)
            M.hit("pairs_checked", len(w.lines))
            if exp and nid not in by_node:
                viol.append({"kind": "aligned_node_without_entry", "msg": f"node {nid} is traversed by records {sorted(exp)[:5]} but has no index entry",
                             "witness": {"stable": w.stable}})
            elif got != exp:
                viol.append({"kind": "association", "msg": f"node {nid}: index lists records {sorted(got)[:8]}, traversed by {sorted(exp)[:8]} "
                                                          f"({'stable' if w.stable else 'unstable'} GAF)",
                             "witness": {"stable": w.stable, "missing": sorted(exp - got)[:5], "extra": sorted(got - exp)[:5]}})
        # situation: alignment ending exactly on a node boundary
        for l in w.lines:
            r = rgaf.Rec(l)
            if ">" not in r.path and "<" not in r.path:
                if any(nd.so == r.pe or nd.end == r.ps for nd in w.coords.by_contig[r.path]):
                    sit["boundary_touching"] += 1
    M.CTX.clear()
    nontrivial = len(w.lines) >= 2 and len({frozenset(s) for s in w.nodesets}) >= 2
    return {"sig": stable_hash([w.lines, w.mode, w.layout]), "nontrivial": nontrivial, "evals": max(evals, 1),
            "situations": dict(sit), "violations": viol, "outcomes": outcomes,
            "sample": {"stable": w.stable, "mode": w.mode, "layout": w.layout, "blocks": w.blocks,
                       "records": len(w.lines), "first": (w.lines[0][:160] if w.lines else None)}}
