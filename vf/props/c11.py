"""C11 — realign output is exactly-once and in input order under every schedule.

One driver subprocess per execution (vf.realign_driver): the real `gaftools realign -c N` runs with
GAFTOOLS_VERIF_REALIGN_BATCH in {1,2,3,5} under a delay plan (seeded random delays from
{0, eps, > time-out} at worker puts / sentinel / exit and before the parent's liveness check,
scaled queue time-outs) or a *forced window* plan (the workers hold their last k puts until the
parent has timed out, the parent then waits until every worker has exited and only then runs the
real liveness check).  Oracle: output byte-equal to the single-core unperturbed run (which itself
has exactly one record per input record, in order), exit status 0, and the hook-level trace
specification (get_ok process)* at the two `if out_string_obj is None` lines.
"""

import collections
import os

from vf import realign_run as RR
from vf.util import stable_hash, read_text

ID = "C11"
LEVEL = "exploration"
RULE = ("per case one realign workload (1-40 records, reads 5-200 bp) and 3-5 executions: cores 1-6, "
        "batch sizes 1/2/3/5 (1-12 batch groups), forced windows for hold k = 1..3 on all groups, and "
        "seeded random delay plans; an evaluation is one execution (one driver process tree); "
        "non-trivial = execution with >= 2 workers; distinct by the arrival-order signature "
        "(sequence of items received by the parent) together with the plan")
ASSUMPTIONS = ["schedule coverage = the interleavings the delay plans and forced windows produce at the instrumented suspension points "
               "(queue put/get, liveness checks, process exit); no other state is shared between the processes",
               "time-outs are scaled by a plan factor (only relative speeds matter)",
               "the default multiprocessing start method (fork) is used, as on the documented platform"]


def plan(tier):
    return {"cases": 96 if tier == "quick" else 2400, "shards": 16, "parallel": 12,
            "shard_budget_s": 500 if tier == "quick" else 3300, "watchdog_s": 1200 if tier == "quick" else 4500}


def required(tier):
    return ["executions", "window_reached_executions", "forced_window_executions", "random_plan_executions",
            "timeouts_with_results_in_flight", "multi_group_executions", "process_probe_events", "baseline_ok", "big_payload_cases", "round_size_cases", "pass_through_record_cases", "cpu_limited_executions"]


# the trace-specification probe is anchored on a source line of realign_gaf; if a refactoring removed the
# line the probe is reported unattached and the output oracle alone decides
OPTIONAL_IF = {"process_probe_events": "probe_unattached"}


def setup(ctx):
    pass


def inconclusive_reasons(m):
    """a watchdog firing without a structural deadlock proof is neither held nor violated"""
    n = m["situations"].get("inconclusive_watchdog", 0)
    return [f"{n} execution(s) hit the wall-clock watchdog without a structural proof of a deadlock"] if n else []


def analyse(run, expected_text, out_path, viol, sit, wit):
    ev = run["events"]
    res = run["result"]
    kinds = collections.Counter(e["ev"] for e in ev)
    if run["timed_out"]:
        d = run["diag"] or {}
        if d.get("proven_deadlock"):
            viol.append({"kind": "hang", "msg": f"realign did not finish: {d.get('why')}", "witness": dict(wit, diag=d)})
        else:
            sit["inconclusive_watchdog"] += 1
        return None
    if res is None:
        viol.append({"kind": "driver_died", "msg": f"driver exited with {run['rc']} without a result", "witness": wit})
        return None
    sit["process_probe_events"] += kinds["process"] + kinds["stale_processed"]
    if kinds["window_reached"]:
        sit["window_reached_executions"] += 1
    # time-outs while results were still in flight: a get_empty followed later by a get_ok in the same group
    by_group = collections.defaultdict(list)
    for e in ev:
        if e["ev"] in ("get_empty", "get_ok"):
            by_group[e["group"]].append(e["ev"])
    if any("get_ok" in seq[seq.index("get_empty"):] for seq in by_group.values() if "get_empty" in seq):
        sit["timeouts_with_results_in_flight"] += 1
    if len(by_group) >= 2:
        sit["multi_group_executions"] += 1
    arrival = [e["id"] for e in ev if e["ev"] == "get_ok"]
    if not res.get("probes_attached"):
        sit["probe_unattached"] += 1
    stale = [e for e in ev if e["ev"] == "stale_processed"]
    if stale:
        viol.append({"kind": "stale_item_processed", "msg": f"trace spec (get_ok process)* violated: item {stale[0].get('id')} processed without a preceding successful get "
                                                            f"({len(stale)} time(s)); processing sequence {[e.get('id') for e in ev if e['ev'] in ('process', 'stale_processed')][:20]}",
                     "witness": dict(wit, stale=len(stale))})
    o = res["outcome"]
    if o["kind"] != "ok" or run["rc"] != 0:
        viol.append({"kind": "run_failed", "msg": f"realign -c {wit['cores']} failed: {o} (exit {run['rc']})", "witness": dict(wit, outcome=o, tb=res.get("tb", "")[-500:])})
    if os.path.exists(out_path):
        got = read_text(out_path)
        if got != expected_text:
            gn = [l.split("\t")[0] for l in got.split("\n") if l]
            en = [l.split("\t")[0] for l in expected_text.split("\n") if l]
            dup = sorted(n for n, c in collections.Counter(gn).items() if c > 1)
            missing = sorted(set(en) - set(gn))
            viol.append({"kind": "output_differs", "msg": f"-c {wit['cores']} batch {wit['batch']}: output differs from the single-core run: "
                                                          f"{len(gn)} records vs {len(en)}; duplicated {dup[:6]}, missing {missing[:6]}, "
                                                          f"order ok: {[n for n in gn if n in set(en)] == [n for n in en if n in set(gn)]}",
                         "witness": dict(wit, duplicated=dup[:10], missing=missing[:10])})
    return arrival


def run_case(ctx, rng, index, casedir):
    sit = collections.Counter()
    viol = []
    nrec = rng.choice([1, 2, 3, 5, 7, rng.randint(8, 20), rng.randint(20, 40)])
    sized = index % 8 == 3  # batch lengths at and around round sizes (exact multiples, one more, one less)
    if sized:
        nrec = rng.choice([64, 100, 128, 129, 192, 200, 256, 320])
        sit["round_size_cases"] += 1
    long_reads = 0
    if index % 16 == 9:
        # records that are written back unchanged (> 60 000 read bases) among ordinary ones, at any position
        nrec, long_reads, sized = rng.randint(6, 24), rng.choice([1, 2]), False
        sit["pass_through_record_cases"] += 1
    big_payload = index % 10 == 7 and not long_reads  # results larger than the 64 KiB pipe buffer (feeder threads block on the pipe)
    if big_payload:
        nrec = rng.randint(2, 6)
        sit["big_payload_cases"] += 1
    w = RR.make_workload(rng, casedir, nrec, big_tag=rng.choice([70_000, 200_000]) if big_payload else None, long_reads=long_reads)
    # baseline: single core, unperturbed, default batch size
    base_out = os.path.join(casedir, "base.gaf")
    base = RR.run_driver(casedir, "base", ["realign", w.gaf, w.gfa, w.fasta, "-o", base_out, "-c", "1"],
                         {"cores": 1}, None, timeout=120)
    if base["timed_out"] or base["rc"] != 0 or not os.path.exists(base_out):
        raise RuntimeError(f"baseline realign run failed: rc={base['rc']} {base['result']}")
    expected = read_text(base_out)
    names = [l.split("\t")[0] for l in expected.split("\n") if l]
    if names != [r.name for r in w.recs]:
        viol.append({"kind": "baseline_not_exactly_once_in_order", "msg": f"single-core run wrote {names[:10]} for input {[r.name for r in w.recs][:10]}"})
    sit["baseline_ok"] += 1
    sigs = []
    nexec = 3 if ctx.tier == "quick" else rng.choice([3, 4, 5])
    for k in range(nexec):
        batch = rng.choice([1, 2, 3, 5]) if not sized or big_payload else rng.choice([16, 32, 64, 100, 128])
        cores = rng.choice([1, 2, 2, 3, 4, 6])
        ngroups = -(-(-(-nrec // batch)) // cores)
        scale = rng.choice([0.02, 0.05, 0.1])
        planned = {"cores": cores, "timeout_scale": scale, "max_groups": ngroups + 2}
        if k == nexec - 1 and rng.random() < 0.3:
            # a small host: realign clamps the requested cores with the CPU count it sees
            planned["cpu_count"] = rng.choice([1, 2, 3, 4])
            planned["affinity"] = planned["cpu_count"]  # reported CPU count and usable CPUs agree
            cores = rng.choice([2, 3, 4, 5, 6, 7])
            planned["cores"] = cores
            kind = "cpu_limited"
            sit["cpu_limited_executions"] += 1
            # early workers are held back a little: whatever runs side by side delivers out of input order
            nworkers = -(-nrec // batch)
            planned["worker_delays"] = {f"{wi}:before_put_0": rng.choice([0.02, 0.05, 0.1]) for wi in range(nworkers) if wi % 2 == 0 and rng.random() < 0.8}
        elif (k == 0 or rng.random() < 0.4) and not big_payload and not sized:
            planned["forced"] = {"groups": "all", "hold": rng.choice([1, 1, 2, 3])}
            kind = "forced"
            sit["forced_window_executions"] += 1
        else:
            to = 0.5 * scale
            choices = [0, 0, 0.001, to * 0.5, to * 1.5, to * 3]
            wd = {}
            nworkers = -(-nrec // batch)
            for wi in range(nworkers):
                for point in ["before_put_0", "before_put_1", "before_sentinel", "before_exit"]:
                    if rng.random() < 0.35:
                        wd[f"{wi}:{point}"] = rng.choice(choices)
            pd = {}
            for n in range(1, 6):
                if rng.random() < 0.4:
                    pd[f"before_alive:{n}"] = rng.choice(choices)
                if rng.random() < 0.2:
                    pd[f"before_get:{n}"] = rng.choice(choices)
            planned["worker_delays"], planned["parent_delays"] = wd, pd
            kind = "random"
            sit["random_plan_executions"] += 1
        out = os.path.join(casedir, f"out{k}.gaf")
        wit = {"cores": cores, "batch": batch, "records": nrec, "plan_kind": kind,
               "plan": {kk: vv for kk, vv in planned.items() if kk != "max_groups"}}
        to_stdout = rng.random() < 0.25
        if to_stdout:
            # no -o: the records go to standard output (collected by the driver into the same file)
            sit["stdout_executions"] += 1
            wit["stdout"] = True
            if rng.random() < 0.4:
                planned["stderr_closed"] = True  # started with `2>&-`: sys.stderr is None in parent and workers
                sit["stdout_executions_with_stderr_closed"] += 1
        run = RR.run_driver(casedir, f"x{k}", ["realign", w.gaf, w.gfa, w.fasta] + ([] if to_stdout else ["-o", out]) + ["-c", str(cores)],
                            planned, batch, timeout=240, stdout_file=out if to_stdout else None)
        sit["executions"] += 1
        arrival = analyse(run, expected, out, viol, sit, wit)
        if arrival is not None and -(-nrec // batch) >= 2:
            sigs.append(stable_hash([arrival, kind, cores, batch]))
    return {"sigs": sigs, "evals": nexec, "situations": dict(sit), "violations": viol,
            "sample": {"records": nrec, "last_plan": wit,
                       "last_arrival_order_at_parent": (arrival or [])[:40],
                       "last_event_kinds": dict(collections.Counter(e["ev"] for e in run["events"]))}}
