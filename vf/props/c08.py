"""C08 — sort orders alignments by (BO, NO, start) as a total order.

(a) contract on the real sort.compare_gaf: on every comparison the sort performs the swapped call
is evaluated too (antisymmetry) and sampled triples are checked for transitivity (record only);
(b) boundary: read-name sequence of the output vs the reference order; (c) permutation
metamorphism over real runs of the same multiset in different input orders.
"""

import collections
import os

from vf import monitor as M
from vf.cli import run_cli
from vf.gen import gaf as ggaf
from vf.props import sort_common as SC
from vf.ref import gaf as rgaf
from vf.util import stable_hash, read_text

ID = "C08"
LEVEL = "exploration"
RULE = ("per case one BO/NO-tagged chain rGFA (tags assigned by the harness per the property, some "
        "nodes tagged -1) and a GAF of 2-200 (thorough up to 2000) walk alignments (few anchors / "
        "many records, ties on every key prefix, reverse-majority paths, untagged anchors "
        "interleaved), sorted by the real `gaftools sort` in 2-6 (thorough up to 50) input "
        "permutations; an evaluation is one sort run; non-trivial = file with >= 3 distinct keys "
        "and at least one pair out of order in the input; distinct by (graph tags, GAF multiset, permutation)")
ASSUMPTIONS = ["anchor = last node iff tagged scaffold '<' steps outnumber '>' steps, else first node (the property's mechanism)",
               "every path stays inside one chromosome component"]


def plan(tier):
    return {"cases": 640 if tier == "quick" else 15000, "shards": 16,
            "shard_budget_s": 300 if tier == "quick" else 3300}


def required(tier):
    return ["post:compare_gaf", "transitivity_triples", "untagged_anchor_records", "tie_groups",
            "equal_bo_diff_no_pairs", "reverse_majority_records", "permutation_runs"]


def setup(ctx):
    SC.install_sort_contracts()


def run_sort(w, gaf, out, rng=None):
    """the order must not depend on how the output is delivered: file, --bgzip, stdout, --outind"""
    SC.reset_seen()
    how = rng.choice(["plain", "plain", "bgzip", "stdout", "outind"]) if rng is not None else "plain"
    M.hit("output_mode:" + how)
    if how == "stdout":
        o = run_cli(["sort", gaf, w.gfa])
        if o.ok:
            with open(out, "w") as f:
                f.write(o.stdout)
        return o
    if how == "bgzip":
        import gzip
        o = run_cli(["sort", gaf, w.gfa, "--outgaf", out + ".gz", "--bgzip"])
        if os.path.exists(out + ".gz"):
            try:
                with gzip.open(out + ".gz", "rt") as f, open(out, "w") as g:
                    g.write(f.read())
            except (OSError, EOFError):
                pass
        return o
    if how == "outind":
        return run_cli(["sort", gaf, w.gfa, "--outind", out + ".myindex", "--outgaf", out])
    return run_cli(["sort", gaf, w.gfa, "--outgaf", out])


def run_case(ctx, rng, index, casedir):
    sit = collections.Counter()
    viol = []
    outcomes = collections.Counter()
    hi = 200 if ctx.tier == "quick" else rng.choice([200, 800, 2000])
    w = SC.build(rng, casedir, index, nrec=rng.choice([2, 8, rng.randint(9, 60), rng.randint(60, hi)]),
                 few_anchors=rng.random() < 0.5)
    M.CTX["sort"] = (w.g, w.tags)
    keys = [SC.ref_tags(w.g, w.tags, l) for l in w.lines]
    names = [l.split("\t")[0] for l in w.lines]
    key_of = {n: (k["bo"], k["no"], k["start"]) for n, k in zip(names, keys)}
    sit["untagged_anchor_records"] += sum(1 for k in keys if k["bo"] == -1)
    groups = collections.Counter(key_of.values())
    sit["tie_groups"] += sum(1 for v in groups.values() if v > 1)
    bos = collections.defaultdict(set)
    for k in keys:
        bos[k["bo"]].add(k["no"])
    sit["equal_bo_diff_no_pairs"] += sum(1 for v in bos.values() if len(v) > 1)
    for l in w.lines:
        r = rgaf.Rec(l)
    sit["reverse_majority_records"] += sum(1 for k, wk in zip(keys, w.walks) if k["anchor"] == wk[-1][0] and len(wk) > 1 and k["start"] is not None and k["anchor"] != wk[0][0])
    nperm = rng.randint(2, 6) if ctx.tier == "quick" else rng.choice([3, 8, 20, 50])
    if len(w.lines) > 500:
        nperm = min(nperm, 4)
    first_canon = None
    sigs = []
    base_sig = stable_hash([sorted(w.lines), sorted(w.tags.items())])
    for p in range(nperm):
        if p == 0:
            gaf = w.gaf
            order = list(range(len(w.lines)))
        else:
            order = list(range(len(w.lines)))
            rng.shuffle(order)
            gaf = os.path.join(casedir, f"perm{p}.gaf" + ("" if w.mode == "plain" else ".gz"))
            ggaf.write_gaf(gaf, [w.lines[i] for i in order], mode=w.mode, rng=rng, layout=w.layout)
        out = os.path.join(casedir, f"sorted{p}.gaf")
        o = run_sort(w, gaf, out, rng)
        M.hit("permutation_runs")
        outcomes[o.kind] += 1
        if not o.ok and not os.path.exists(out):
            viol.append({"kind": "sort_failed", "msg": f"sort: {o.brief()}", "witness": {"outcome": o.to_json()}})
            continue
        # (a failure after the records were written is C10's subject; judge the order anyway)
        got = [l.split("\t")[0] for l in read_text(out).split("\n") if l]
        exp_idx = SC.ref_order([keys[i] for i in order])
        exp = [names[order[i]] for i in exp_idx]
        if sorted(got) != sorted(exp):
            viol.append({"kind": "not_a_permutation", "msg": f"sort output has {len(got)} records, input {len(exp)}"})
            continue
        ntag = sum(1 for k in keys if k["bo"] != -1)
        # the statement fixes the order of the tagged records (ties: input order) and only says that
        # untagged anchors come after all tagged ones: any order inside the untagged tail is accepted
        if got[:ntag] != exp[:ntag] or sorted(got[ntag:]) != sorted(exp[ntag:]):
            d = next(i for i in range(len(exp)) if got[i] != exp[i])
            viol.append({"kind": "order", "msg": f"perm {p}: position {d}: got {got[d]} key {key_of[got[d]]}, expected {exp[d]} key {key_of[exp[d]]}",
                         "witness": {"got_keys": [key_of[n] for n in got[max(0, d - 2):d + 4]],
                                     "expected_keys": [key_of[n] for n in exp[max(0, d - 2):d + 4]],
                                     "involves_untagged": any(key_of[n][0] == -1 for n in got[max(0, d - 1):d + 2] + exp[max(0, d - 1):d + 2])}})
        canon = [key_of[n] for n in got[:ntag]] + sorted(key_of[n] for n in got[ntag:])
        if first_canon is None:
            first_canon = canon
        elif canon != first_canon:
            viol.append({"kind": "permutation_dependence", "msg": f"perm {p}: key sequence of the output differs from perm 0 beyond exact ties"})
        inversions = any(exp_idx[i] > exp_idx[i + 1] for i in range(len(exp_idx) - 1))
        if len(groups) >= 3 and inversions:
            sigs.append(stable_hash([base_sig, order]))
    M.CTX.clear()
    return {"sigs": sigs, "evals": nperm, "situations": dict(sit), "violations": viol, "outcomes": dict(outcomes),
            "sample": {"records": len(w.lines), "keys": [list(key_of[n]) for n in names[:8]], "mode": w.mode}}
