"""C10 — sort writes a usable per-chromosome index next to the sorted GAF.

Boundary oracle: `gaftools sort --outgaf` completes, the .gsi / --outind pickle exists, its key set
equals the contigs present in the output's sn fields (minus 'unknown'), seeking the sorted file to
first / last (plain byte offset; BGZF virtual offset through pysam *and* the independent block
parser) yields the first / last record of that contig and no record of the contig lies outside.
"""

import collections
import gzip
import os
import pickle

from vf import bgzf, monitor as M
from vf.cli import run_cli
from vf.props import sort_common as SC
from vf.ref import gaf as rgaf
from vf.util import stable_hash

ID = "C10"
LEVEL = "exploration"
RULE = ("per case one BO/NO-tagged chain rGFA with 1-4 chromosomes and a GAF of 1-300 (thorough up "
        "to 5000) alignments; files in which EVERY alignment touches a reference node and files "
        "where some touch none; plain and --bgzip output (multi-block in thorough), default and "
        "explicit index path; an evaluation is one (contig, first/last) entry verified; "
        "non-trivial = output with >= 2 contigs or >= 2 records of one contig; distinct by (GAF multiset, output mode)")
ASSUMPTIONS = ["pysam's BGZFile.seek/readline is trusted to read back virtual offsets; cross-checked by the harness's own BGZF block parser",
               "every path stays inside one chromosome component"]


def plan(tier):
    return {"cases": 800 if tier == "quick" else 40000, "shards": 16,
            "shard_budget_s": 300 if tier == "quick" else 3300}


def required(tier):
    return ["explicit_outind_aliasing_default", "round_run_length_cases", "all_records_known_contig", "some_records_unknown", "plain_output", "bgzip_output",
            "explicit_outind", "entries_verified", "multi_chromosome", "bgzip_multi_block"]


def setup(ctx):
    SC.install_sort_contracts()


def run_case(ctx, rng, index, casedir):
    sit = collections.Counter()
    viol = []
    all_known = rng.random() < 0.5
    hi = 300 if ctx.tier == "quick" else rng.choice([300, 1500, 5000])
    bigout = index % 7 == 5  # output larger than one 64 KiB BGZF block (long optional fields)
    if index % 40 == 13:
        # one chromosome, every record on the reference: a single run of a round number of records
        sit["round_run_length_cases"] += 1
        w = SC.build(rng, casedir, index, nrec=rng.choice([256, 500, 512, 1000, 1024, 1536]), force_all_known=True, n_chrom=1, untagged=False, huge=False)
        all_known = True
    else:
        w = SC.build(rng, casedir, index, nrec=rng.randint(120, 300) if bigout else rng.choice([1, 3, rng.randint(4, 40), rng.randint(40, hi)] + ([0] if rng.random() < 0.1 else [])),
                     force_all_known=all_known, n_chrom=rng.choice([2, 3, 4]) if bigout else rng.choice([1, 2, 3, 4]),
                     tags=["zl:Z:" + "y" * rng.choice([300, 700, 1500])] if bigout else
                     (rng.choice(["safe", "safe", ["zl:Z:" + "y" * 700]]) if ctx.tier == "thorough" else "safe"))
    M.CTX["sort"] = (w.g, w.tags)
    keys = [SC.ref_tags(w.g, w.tags, l) for l in w.lines]
    sns = [k["sn"] for k in keys]
    if "unknown" in sns:
        sit["some_records_unknown"] += 1
    else:
        sit["all_records_known_contig"] += 1
    if len(set(sns) - {"unknown"}) >= 2:
        sit["multi_chromosome"] += 1
    bgz = rng.random() < 0.5 or bigout
    out = os.path.join(casedir, "sorted.gaf" + (".gz" if bgz else ""))
    argv = ["sort", w.gaf, w.gfa, "--outgaf", out]
    ind = out + ".gsi"
    r_ind = rng.random()
    if r_ind < 0.3:
        ind = os.path.join(casedir, "my.index")
        argv += ["--outind", ind]
        sit["explicit_outind"] += 1
    elif r_ind < 0.4:
        # the default location, named explicitly and spelled differently from --outgaf
        argv += ["--outind", os.path.join(casedir, ".", os.path.basename(out) + ".gsi")]
        sit["explicit_outind_aliasing_default"] += 1
    if bgz:
        argv += ["--bgzip"]
    sit["bgzip_output" if bgz else "plain_output"] += 1
    SC.reset_seen()
    o = run_cli(argv)
    outcomes = {o.kind: 1}
    wit = {"all_records_touch_reference": "unknown" not in sns, "bgzip": bgz, "outcome": o.to_json()}
    evals = 1
    nontrivial = False
    if not o.ok:
        viol.append({"kind": "sort_did_not_complete", "msg": f"sort --outgaf: {o.brief()}", "witness": wit})
    if not os.path.exists(ind):
        viol.append({"kind": "no_index_file", "msg": f"no sort index at {os.path.basename(ind)} after sort --outgaf ({o.brief()})", "witness": wit})
    elif os.path.exists(out):
        with open(ind, "rb") as f:
            idx = pickle.load(f)
        if bgz:
            with gzip.open(out, "rt") as f:
                text = f.read()
            bi = bgzf.BgzfIndex(out)
            if bi.data_blocks() > 1:
                sit["bgzip_multi_block"] += 1
            if bi.data.decode() != text:
                raise RuntimeError("oracle self-check: gzip and BGZF block parser disagree")
        else:
            text = open(out).read()
        lines = [l for l in text.split("\n") if l]
        recs = [rgaf.Rec(l) for l in lines]
        # "tagged with that contig": the sn:Z field sort appended, i.e. the last one of the record (an input
        # record may carry an sn:Z field of its own, e.g. when a sorted file is sorted again)
        out_sn = [next((f[5:] for f in reversed(r.fields) if f.startswith("sn:Z:")), None) for r in recs]
        contigs = sorted(set(out_sn) - {"unknown", None})
        if sorted(idx.keys()) != contigs:
            viol.append({"kind": "index_keys", "msg": f"index keys {sorted(idx.keys())} != contigs in the output {contigs}", "witness": wit})
        # position of each record in its own file
        if bgz:
            # uncompressed position of every line start
            pos = []
            p = 0
            for l in lines:
                pos.append(p)
                p += len(l.encode()) + 1
            resolve = bi.upos
        else:
            pos = []
            p = 0
            for l in lines:
                pos.append(p)
                p += len(l.encode()) + 1
            resolve = lambda x: x  # noqa: E731
        from pysam import libcbgzf
        for c in contigs:
            if c not in idx:
                continue
            M.hit("entries_verified")
            evals += 1
            first, last = idx[c]
            members = [i for i, s in enumerate(out_sn) if s == c]
            pf, pl = resolve(first), resolve(last)
            if pf != pos[members[0]] or pl != pos[members[-1]]:
                viol.append({"kind": "index_offsets", "msg": f"contig {c}: first/last = {first}/{last} resolve to {pf}/{pl}; "
                                                           f"first/last record of the contig start at {pos[members[0]]}/{pos[members[-1]]}",
                             "witness": wit})
            if bgz:  # through the real reader as well
                for off, i in ((first, members[0]), (last, members[-1])):
                    rd = libcbgzf.BGZFile(out, "rb")  # a fresh reader per seek: a bad offset poisons the handle
                    try:
                        rd.seek(off)
                        got = rd.readline().decode(errors="replace").rstrip("\n")
                    except Exception as e:  # noqa: BLE001
                        got = f"<{type(e).__name__}: {e}>"
                    try:
                        rd.close()
                    except OSError:
                        pass
                    if got != lines[i]:
                        viol.append({"kind": "index_seek_pysam", "msg": f"contig {c}: seeking to {off} reads {got[:60]!r}, expected record {lines[i][:60]!r}"})
            if any(not (pos[members[0]] <= pos[i] <= pos[members[-1]]) for i in members):
                viol.append({"kind": "record_outside_range", "msg": f"contig {c}: a record lies outside [first,last]"})
        nontrivial = len(contigs) >= 2 or any(out_sn.count(c) >= 2 for c in contigs)
    M.CTX.clear()
    return {"sig": stable_hash([sorted(w.lines), bgz]), "nontrivial": nontrivial, "evals": evals,
            "situations": dict(sit), "violations": viol, "outcomes": outcomes,
            "sample": {"records": len(w.lines), "sn": sorted(set(sns)), "bgzip": bgz, "argv": argv[3:]}}
