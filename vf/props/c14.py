"""C14 — Path sequences are spelled correctly and only for real walks.

icontract post-conditions on the real GFA.path_exists / GFA.extract_path (every caller, including
realign, goes through the rebound class attributes) against the step-pair set derived from the
L-line semantics, plus a boundary oracle on `gaftools find_path` (single path, file of paths,
--fasta, .gfa.gz).
"""

import collections
import os
from vf.util import vary_name  # noqa: E402

from vf import monitor as M
from vf.cli import run_cli
from vf.gen import rgfa
from vf.ref import gfa as rg
from vf.util import stable_hash, write_text, read_text

ID = "C14"
LEVEL = "exploration"
RULE = ("per case one generated GFA with sequences (links in all four orientation combinations, "
        "self-links, either-end declarations, overlaps nM, optional tag-less links, P/W/H/# lines) "
        "and 12-40 step sequences: true walks, their reversals, near-walks (one orientation "
        "flipped / one node replaced / a link used from the wrong end) and random step sequences; "
        "non-trivial = path of >= 2 steps; distinct by (graph signature, path)")
ASSUMPTIONS = ["node ids in paths exist in the graph (unknown ids are outside the quantifier)",
               "sequence alphabet ACGTN in both cases (soft-masked bases)", "the step-pair oracle reads the generator's link list, "
               "and is cross-checked against ref.gfa's reading of the written file"]


def plan(tier):
    return {"cases": 1600 if tier == "quick" else 200000, "shards": 16,
            "shard_budget_s": 300 if tier == "quick" else 3300}


def required(tier):
    cells = [f"cell:{a}{b}:{r}" for a in "><" for b in "><" for r in ("accepted", "rejected")]
    return ["post:path_exists", "post:extract_path", "cli_single", "cli_file", "cli_fasta",
            "cli_gz", "reversal_pairs", "selflink_walk", "mixed_case_graphs", "cli_stdout", "path_file_without_final_newline", "path_list_through_fifo"] + cells


# -- contracts --------------------------------------------------------------------------------

def post_path_exists(self, ordered_path, result):
    M.hit("post:path_exists")
    pairs = M.CTX.get("pairs")
    if pairs is None:
        return True
    steps = [(s[1:], s[0]) for s in ordered_path]
    exp = rg.is_walk(steps, pairs)
    for i in range(len(steps) - 1):
        ok = (steps[i], steps[i + 1]) in pairs
        M.hit(f"cell:{steps[i][1]}{steps[i + 1][1]}:{'accepted' if ok else 'rejected'}")
        if not ok:
            break
    if bool(result) != exp:
        M.record("path_exists", f"path_exists({''.join(ordered_path)}) = {result}, reference says {exp}",
                 path="".join(ordered_path))
    return True


def post_extract_path(self, path, result):
    M.hit("post:extract_path")
    pairs, seqs = M.CTX.get("pairs"), M.CTX.get("seqs")
    if pairs is None:
        return True
    steps = rg.parse_path(path)
    if steps is None or any(n not in seqs for n, _o in steps):
        return True
    exp = rg.spell(steps, seqs) if rg.is_walk(steps, pairs) else ""
    if result != exp:
        M.record("extract_path", f"extract_path({path}) returned {result[:60]!r} expected {exp[:60]!r}",
                 path=path)
    return True


def setup(ctx):
    from gaftools import gfa
    M.attach(gfa.GFA, "path_exists", post=post_path_exists)
    M.attach(gfa.GFA, "extract_path", post=post_extract_path)


# -- workload ---------------------------------------------------------------------------------

def generalize(g, rng):
    """turn the rGFA into the 'general GFA' class"""
    for l in g.links:
        r = rng.random()
        if r < 0.25:
            l[4] = rng.randint(1, 9)
        if rng.random() < 0.2:
            l[5] = []
        elif rng.random() < 0.2:
            l[5] = l[5] + [f"zz:Z:x{rng.randint(0, 99)}"]
    if rng.random() < 0.4:
        g.header = "H\tVN:Z:1.0"
    if rng.random() < 0.4:
        some = list(g.nodes)[:3]
        g.extra_lines.append("P\tp1\t" + ",".join(s + "+" for s in some) + "\t*")
        g.extra_lines.append("# a comment line")
        g.extra_lines.append("W\tsample\t1\tchr1\t0\t10\t" + "".join(">" + s for s in some))


def reverse_walk(steps):
    return [(n, "<" if o == ">" else ">") for n, o in reversed(steps)]


def make_paths(g, rng, pairs, sit):
    succ = g.successors()
    nodes = list(g.nodes)
    paths = []
    k = rng.randint(12, 40)
    selfl = [l for l in g.links if l[0] == l[2]]
    if selfl:
        a, oa, b, ob = selfl[0][:4]
        w = [(a, rgfa.FW[oa]), (b, rgfa.FW[ob])]
        extra = rgfa.random_walk(g, rng, 4, succ, start=w[-1])
        paths.append(("selflink", w + extra[1:]))
        M.hit("selflink_walk")
    while len(paths) < k:
        w = rgfa.random_walk(g, rng, rng.choice([1, 2, 3, 5, 8, 15]), succ)
        r = rng.random()
        if r < 0.35:
            paths.append(("walk", w))
        elif r < 0.5:
            paths.append(("walk", w))
            paths.append(("reversed", reverse_walk(w)))
        elif r < 0.65 and len(w) >= 2:
            i = rng.randrange(len(w))
            w2 = list(w)
            w2[i] = (w2[i][0], "<" if w2[i][1] == ">" else ">")
            paths.append(("flip_one", w2))
        elif r < 0.8 and len(w) >= 2:
            i = rng.randrange(len(w))
            w2 = list(w)
            w2[i] = (rng.choice(nodes), w2[i][1])
            paths.append(("swap_node", w2))
        elif r < 0.9 and len(w) >= 2:
            i = rng.randrange(len(w) - 1)
            w2 = list(w)
            w2[i], w2[i + 1] = w2[i + 1], w2[i]  # the link used from the wrong end
            paths.append(("wrong_end", w2))
        else:
            w2 = [(rng.choice(nodes), rng.choice("><")) for _ in range(rng.randint(1, 6))]
            paths.append(("random_steps", w2))
    return paths


def run_case(ctx, rng, index, casedir):
    sit = collections.Counter()
    viol = []
    g = rgfa.gen_rgfa(rng, size=rng.choice(["small", "small", "medium"]))
    generalize(g, rng)
    if rng.random() < 0.3:  # soft-masked (lower-case) and ambiguous (N) bases are valid sequence characters
        for n in g.nodes.values():
            n.seq = "".join(c.lower() if rng.random() < 0.4 else (c if rng.random() < 0.95 else "N") for c in n.seq)
        sit["mixed_case_graphs"] += 1
    gz = rng.random() < 0.3
    gpath = os.path.join(casedir, vary_name(rng, "g.gfa") + (".gz" if gz else ""))
    g.write(gpath, rng=rng, shuffle=rng.random() < 0.5, interleave=rng.random() < 0.3)
    pairs = g.step_pairs()
    seqs = g.seqs()
    # the oracle's reading of the written file must agree with the generator's ground truth
    rfile = rg.read(gpath)
    if rfile.step_pairs() != pairs or {k: v[0] for k, v in rfile.segments.items()} != seqs:
        raise RuntimeError("oracle self-check: ref.gfa reading differs from generator ground truth")
    M.CTX["pairs"], M.CTX["seqs"] = pairs, seqs
    from gaftools.gfa import GFA
    real = GFA(gpath)
    paths = make_paths(g, rng, pairs, sit)
    sigs = []
    gsig = stable_hash(g.signature())
    results = {}
    for kind, steps in paths:
        p = rgfa.path_str(steps)
        walk = rg.is_walk(steps, pairs)
        exp = rg.spell(steps, seqs) if walk else ""
        got = real.extract_path(p)
        results[p] = got
        sit[f"{kind}:{'walk' if walk else 'nonwalk'}"] += 1
        if got != exp:
            viol.append({"kind": "extract_path", "msg": f"extract_path({p}) = {got[:50]!r}, expected {exp[:50]!r} ({kind})",
                         "witness": {"path": p, "class": kind}})
        # reversal clause
        rp = rgfa.path_str(reverse_walk(steps))
        rgot = real.extract_path(rp)
        M.hit("reversal_pairs")
        if bool(rgot) != bool(got) and (exp != "" or rgot != ""):
            viol.append({"kind": "reversal_acceptance", "msg": f"{p} accepted={bool(got)} but reversed {rp} accepted={bool(rgot)}",
                         "witness": {"path": p}})
        elif got and rgot != rg.revcomp(got):
            viol.append({"kind": "reversal_spelling", "msg": f"reversed walk {rp} does not spell the reverse complement",
                         "witness": {"path": p}})
        if len(steps) >= 2:
            sigs.append(stable_hash([gsig, p]))
    # ---- CLI boundary -----------------------------------------------------------------------
    plist = [rgfa.path_str(s) for _k, s in paths]
    exp_list = [rg.spell(s, seqs) if rg.is_walk(s, pairs) else "" for _k, s in paths]
    out1 = os.path.join(casedir, "single.txt")
    fasta = rng.random() < 0.5
    i = rng.randrange(len(plist))
    old_cwd = None
    if rng.random() < 0.15 and "/" not in plist[i] and len(plist[i].encode()) < 200:
        # the current directory holds a regular file named exactly like the path (results of an earlier
        # run filed under the path they belong to): the argument still is a path
        old_cwd = os.getcwd()
        with open(os.path.join(casedir, plist[i]), "w") as f:
            f.write(rng.choice(["ACGTTTGCA\n", "", ">s1>s2\n", exp_list[i] + "\n"]))
        os.chdir(casedir)
        M.hit("file_named_like_the_path_in_cwd")
    if rng.random() < 0.3:  # default output: stdout
        o = run_cli(["find_path", gpath, plist[i]] + (["--fasta"] if fasta else []))
        if o.ok:
            with open(out1, "w") as f:
                f.write(o.stdout)
        M.hit("cli_stdout")
    else:
        o = run_cli(["find_path", gpath, plist[i], "-o", out1] + (["--fasta"] if fasta else []))
    if old_cwd is not None:
        os.chdir(old_cwd)
    M.hit("cli_single")
    if gz:
        M.hit("cli_gz")
    if not o.ok:
        viol.append({"kind": "cli_failed", "msg": f"find_path single path: {o.brief()}", "witness": {"path": plist[i]}})
    else:
        exp_txt = (f">seq_{plist[i]}\n" if fasta else "") + exp_list[i] + "\n"
        if read_text(out1) != exp_txt:
            viol.append({"kind": "cli_single_output", "msg": f"find_path {plist[i]} wrote {read_text(out1)[:80]!r} expected {exp_txt[:80]!r}"})
    nl = "\r\n" if rng.random() < 0.1 else "\n"
    unterminated = rng.random() < 0.15  # the last path is still a path
    if unterminated:
        M.hit("path_file_without_final_newline")
    pf = os.path.join(casedir, "paths.txt")
    content = nl.join(plist) + ("" if unterminated else nl)
    fifo_thread = None
    if rng.random() < 0.06:
        # the list of paths comes through a named pipe (process substitution, /dev/stdin): not a regular
        # file, st_size 0, readable once
        import threading
        os.mkfifo(pf)

        def feed():
            with open(pf, "w", newline="") as f:
                f.write(content)
        fifo_thread = threading.Thread(target=feed, daemon=True)
        fifo_thread.start()
        M.hit("path_list_through_fifo")
    else:
        with open(pf, "w", newline="") as f:
            f.write(content)
    out2 = os.path.join(casedir, "multi.txt")
    fasta2 = rng.random() < 0.5
    o = run_cli(["find_path", gpath, pf, "-o", out2] + (["-f"] if fasta2 else []))
    if fifo_thread is not None:
        # if the command never opened the pipe the writer still waits in open(): let it go
        try:
            fd = os.open(pf, os.O_RDONLY | os.O_NONBLOCK)
            fifo_thread.join(timeout=5)
            os.close(fd)
        except OSError:
            pass
    M.hit("cli_file")
    if fasta2 or fasta:
        M.hit("cli_fasta")
    if not o.ok:
        viol.append({"kind": "cli_failed", "msg": f"find_path file input: {o.brief()}"})
    else:
        exp_txt = "".join((f">seq_{p}\n" if fasta2 else "") + e + "\n" for p, e in zip(plist, exp_list))
        got_txt = read_text(out2)
        if got_txt != exp_txt:
            gl, el = got_txt.split("\n"), exp_txt.split("\n")
            d = next((k for k in range(min(len(gl), len(el))) if gl[k] != el[k]), min(len(gl), len(el)))
            viol.append({"kind": "cli_file_output", "msg": f"find_path file: {len(gl)} lines vs expected {len(el)}; first difference at line {d}"})
    M.CTX.clear()
    return {"sigs": sigs, "evals": len(paths), "situations": dict(sit), "violations": viol,
            "sample": {"graph_nodes": len(g.nodes), "graph_links": len(g.links), "paths": plist[:6]}}
