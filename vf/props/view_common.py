"""Shared workload for C03/C04/C05 (and C17): a generated rGFA, a GAF over it (unstable, or stable
in gaftools' form produced by the independent reference conversion), written plain / BGZF with a
chosen block layout, indexed by the real `gaftools index`, with the ground-truth association
record -> traversed nodes."""

import os
import time
from vf.util import vary_name  # noqa: E402
import pickle

from vf import bgzf
from vf.cli import run_cli
from vf.gen import rgfa, gaf as ggaf
from vf.ref import gaf as rgaf


class Workload:
    pass


def build(rng, casedir, index, tier, stable=None, size=None, nrec=None, tags="safe", offsets="any",
          mode=None, name_space=None, long_lines=False, long_nodes=None, unmapped=False, offset_ref=False, dotdot=False):
    w = Workload()
    if long_nodes is None:  # now and then segments of hundreds of kilobases (lengths only, no sequences in the file)
        long_nodes = rng.random() < 0.03
    if name_space is None:  # GraphAligner style read names ("name description") in a fifth of the files
        name_space = rng.random() < 0.2
    size = size or rng.choice(["small", "small", "medium"])
    g = rgfa.gen_rgfa(rng, size=size)
    if long_nodes:
        rgfa.stretch(g, rng, rng.choice([9000, 40000]), seq=False)
    w.long_nodes = long_nodes
    w.offset_ref = False
    if offset_ref:
        # a region extract of a larger graph (e.g. the MHC cut out of chr6): the reference contigs keep
        # their original coordinates, so they do not start at 0 and the sum of their segment lengths
        # says nothing about where their coordinates lie
        for c in g.ref_contigs():
            shift = rng.choice([1000, 29_000_000, rng.randint(1, 10 ** 7)])
            for n in g.contig_nodes(c):
                n.so += shift
        w.offset_ref = True
    w.g = g
    w.coords = rgaf.Coords(g)
    w.gfa = g.write(os.path.join(casedir, vary_name(rng, "g.gfa") + (".gz" if rng.random() < 0.2 else "")), rng=rng,
                    shuffle=rng.random() < 0.5, lex_so=rng.random() < 0.08, **({"with_seq": False} if long_nodes else {}))
    w.stable = rng.random() < 0.5 if stable is None else stable
    if nrec is None:
        nrec = rng.choice([1, 2, rng.randint(3, 25), rng.randint(10, 60)])
    walks = ggaf.make_walks(g, rng, nrec, maxlen=rng.choice([3, 8, 14]), forced=nrec >= 8)
    recs = []
    for i, wk in enumerate(walks):
        extra = tags if tags != "safe" else rng.choice(["safe", "grammar_plain"])
        if long_lines and rng.random() < 0.3:
            extra = [f"zl:Z:{'x' * (rng.randint(500, 3000) if rng.random() < 0.9 else rng.randint(66000, 90000))}", "NM:i:3"]
        recs.append(ggaf.make_record(g, rng, wk, f"r{index}_{i}", offsets=offsets, tags=extra, name_space=name_space and rng.random() < 0.3,
                                     cigar=not long_nodes))  # (no megabase CIGAR strings on the long segments)
    lines = [r.line for r in recs]
    if w.stable:
        lines = [rgaf.ref_to_stable(g, l) for l in lines]
        # stable paths written by other tools need not consist of whole segments: an interval may
        # end (or begin) anywhere inside a segment
        lines = [partial_intervals(l, rng) if rng.random() < 0.25 else l for l in lines]
    w.unmapped = 0
    um = set()
    if unmapped and not w.stable and len(lines) >= 11:
        # reads without an alignment, written as records whose path column is '*' (anywhere after the
        # lines the format detection looks at): they traverse no node
        for k in range(rng.randint(1, 3)):
            pos = rng.randint(10, len(lines))
            qlen = rng.randint(1, 500)
            lines.insert(pos, rng.choice([f"um{index}_{k}\t{qlen}\t0\t0\t*\t*\t0\t0\t0\t0\t0\t0",
                                          f"um{index}_{k}\t{qlen}\t0\t{qlen}\t+\t*\t0\t0\t0\t0\t0\t255\ttp:A:P"]))
            um = {u + 1 if u >= pos else u for u in um} | {pos}
        w.unmapped = len(um)
    w.lines, w.text_kind = ggaf.text_variant(lines, rng)
    lines = w.lines
    w.walks = walks
    w.nodesets = [set() if i in um else rgaf.traversed_nodes(g, w.coords, l) for i, l in enumerate(lines)]
    w.mode = mode or rng.choice(["plain", "plain", "bgzf", "pysam"])
    w.layout = rng.choice(["standard", "tiny", "tiny", "line_start"])
    w.gaf = os.path.join(casedir, vary_name(rng, "a.gaf") + ("" if w.mode == "plain" else ".gz"))
    w.final_newline = rng.random() >= 0.15
    w.dotdot = False
    if dotdot and len(lines) >= 2:
        # the GAF is named through a symlinked directory and '..' (results -> /scratch/run7/results, file
        # addressed as results/../reads.gaf): the kernel follows the link before it goes up, a lexical
        # clean-up of the name does not - and there another GAF of the same name lies (an older run)
        name = os.path.basename(w.gaf)
        os.makedirs(os.path.join(casedir, "real", "sub"))
        os.symlink(os.path.join(casedir, "real", "sub"), os.path.join(casedir, "lnk"))
        ggaf.write_gaf(os.path.join(casedir, name), lines[::-1][:max(1, len(lines) - 1)], mode=w.mode, rng=rng, layout=w.layout, final_newline=True)
        w.gaf = os.path.join(casedir, "lnk", "..", name)
        w.dotdot = True
    ggaf.write_gaf(w.gaf, lines, mode=w.mode, rng=rng, layout=w.layout, final_newline=w.final_newline)
    w.blocks = bgzf.BgzfIndex(w.gaf).data_blocks() if w.mode != "plain" else 0
    w.aligned = set().union(*w.nodesets) if w.nodesets else set()
    w.unaligned = [n for n in g.nodes if n not in w.aligned]
    return w


def partial_intervals(line, rng):
    """shorten the last (and sometimes the first) explicit interval of a stable path so that it ends /
    begins strictly inside a segment; path length and offsets are kept consistent"""
    import re
    c = line.split("\t")
    els = re.findall(r"[<>][^<>]+", c[5])
    if not els or any(":" not in e for e in els):
        return line
    plen, ps, pe = int(c[6]), int(c[7]), int(c[8])

    def split(e):
        contig, _, iv = e[1:].rpartition(":")
        a, b = (int(x) for x in iv.split("-"))
        return e[0], contig, a, b

    o, contig, a, b = split(els[-1])
    if b - a >= 2:
        nb = rng.randint(a + 1, b - 1)
        # '<' elements are traversed from their end: cutting the end of the interval removes bases at the
        # front of that element, the path just gets shorter; offsets are clamped into the new path
        plen -= b - nb
        els[-1] = f"{o}{contig}:{a}-{nb}"
    if rng.random() < 0.3:
        o, contig, a, b = split(els[0])
        if b - a >= 2:
            na = rng.randint(a + 1, b - 1)
            plen -= na - a
            els[0] = f"{o}{contig}:{na}-{b}"
    pe = max(1, min(pe, plen))
    ps = min(ps, pe - 1)
    c[5], c[6], c[7], c[8] = "".join(els), str(plen), str(ps), str(pe)
    return "\t".join(c)


def run_index(w, out=None):
    argv = ["index", w.gaf, w.gfa] + (["-o", out] if out else [])
    o = run_cli(argv)
    w.gvi = out or (w.gaf + ".gvi")
    if o.ok and stable_touch(w):
        # the GAF gets a newer modification time than its index (touch, cp, rsync without -t): same content
        t = time.time() + 30
        os.utime(w.gaf, (t, t))
    return o


def stable_touch(w):
    import hashlib
    return int(hashlib.sha1(("touch" + "".join(w.lines[:1])).encode()).hexdigest()[:4], 16) % 5 == 0


def load_index(w):
    with open(w.gvi, "rb") as f:
        return pickle.load(f)


def expected_selection(w, nodes):
    """indices of the records traversing at least one of `nodes`, in file order"""
    ns = set(nodes)
    return [i for i, s in enumerate(w.nodesets) if s & ns]


def expected_str_line(line):
    """what re-serialising a parsed record (safe tag class) must look like: the read name is cut at
    its first space, everything else verbatim"""
    cols = line.rstrip().split("\t")
    cols[0] = cols[0].split(" ")[0]
    return "\t".join(cols)
