"""C15 — Graph decomposition primitives are exact.

Library calls on the real gaftools.gfa.GFA under icontract post-conditions (reference computed from
the graph's own adjacency sets) plus a boundary oracle against the harness's independent model:
* exhaustive: every connected labelled simple graph with n <= 6 (quick) / n <= 7 (thorough) nodes,
  each with a seeded orientation labelling of its links;
* exhaustive multigraph decorations (parallel links, self-links, every orientation labelling) of
  every connected simple graph with <= 3 nodes, sampled for 4-5 nodes;
* random larger graphs, the shipped chr1 graph;
* edit histories (add-node / add-link / delete-node) with the structural invariant evaluated at
  every quiescent point (after every operation).
"""

import itertools
import os

from vf import monitor as M
from vf.ref import bcc
from vf.util import REPO, stable_hash

ID = "C15"
LEVEL = "exploration"
RULE = ("cases: (a) exhaustive enumeration of all connected labelled simple graphs up to n nodes "
        "with a seeded orientation labelling; (b) multigraph decorations; (c) random graphs of "
        "10-300 nodes in five shapes; (d) the chr1 graph from tests/data; (e) edit histories of "
        "1-60 operations over <=8 ids. A graph counts as non-trivial when it has >= 3 nodes and "
        ">= 2 links (a history when it has >= 3 operations incl. a deletion); distinct by the "
        "(node ids, link list) signature / the operation list.")
ASSUMPTIONS = [
    "ref.bcc (union-find, textbook Hopcroft-Tarjan, articulation points by definition) is correct; "
    "it is self-checked against the definitional articulation test on every graph <= 2000 nodes",
    "biccs() is judged on connected graphs only (the statement's quantifier)",
    "links are only added between nodes that exist (operations made through the library)",
]

SIDE_L = {"+": 1, "-": 0}
SIDE_R = {"+": 0, "-": 1}
CHUNK = 1024


def EXHAUSTIVE(tier, m):
    n = 6 if tier == "quick" else 7
    return (f"all connected labelled simple graphs with <= {n} nodes "
            f"({m['situations'].get('exhaustive_connected_graphs', 0)} graphs judged)")


# -- case plan --------------------------------------------------------------------------------

def _families(tier):
    nmax = 6 if tier == "quick" else 7
    fam = []
    for n in range(1, nmax + 1):
        m = n * (n - 1) // 2
        for start in range(0, 1 << m, CHUNK):
            fam.append(("enum", n, start))
    fam += [("multi_ex", i) for i in range(16)]
    fam += [("multi_sample", i) for i in range(40 if tier == "quick" else 1200)]
    fam += [("random", i) for i in range(60 if tier == "quick" else 3000)]
    fam += [("history", i) for i in range(150 if tier == "quick" else 12000)]
    fam += [("chr1", 0)]
    # a graph file of more than 100 000 links whose lines are not "all S before all L" (vg-style writers)
    fam += [("bigfile", i) for i in range(1 if tier == "quick" else 3)]
    return fam


_FAM = {}


def plan(tier):
    _FAM[tier] = _families(tier)
    return {"cases": len(_FAM[tier]), "shards": 16, "shard_budget_s": 900 if tier == "quick" else 3000,
            "watchdog_s": 1200 if tier == "quick" else 3600}


def required(tier):
    return ["post:biccs", "post:all_components", "post:dfs", "exhaustive_connected_graphs",
            "history_ops", "invariant_evals", "biccs_with_artic", "multigraph_cases", "query_after_query",
            "graphs_loaded_from_file", "file_without_final_newline", "edits_without_query_between", "big_graph_files"]


# -- model ------------------------------------------------------------------------------------

class Model:
    """Independent model of the graph: nodes + multiset of links."""

    def __init__(self):
        self.nodes = {}
        self.links = []

    def add_node(self, n, seq=""):
        if n not in self.nodes:
            self.nodes[n] = seq

    def add_link(self, a, oa, b, ob, ov):
        self.links.append((a, oa, b, ob, ov))

    def remove_node(self, n):
        del self.nodes[n]
        self.links = [l for l in self.links if l[0] != n and l[2] != n]

    def sides(self):
        """expected (start set, end set) per node from the L semantics"""
        exp = {n: (set(), set()) for n in self.nodes}
        for a, oa, b, ob, ov in self.links:
            sa, sb = SIDE_L[oa], SIDE_R[ob]
            exp[a][sa].add((b, sb, ov))
            exp[b][sb].add((a, sa, ov))
        return exp

    def adj(self):
        adj = {n: set() for n in self.nodes}
        for a, _oa, b, _ob, _ov in self.links:
            if a != b:
                adj[a].add(b)
                adj[b].add(a)
        return adj


def adj_from_real(g):
    adj = {}
    for nid, node in g.nodes.items():
        s = set()
        for x in node.start:
            s.add(x[0])
        for x in node.end:
            s.add(x[0])
        s.discard(nid)
        adj[nid] = s
    return adj


def build_from_file(model, rng, casedir, style=None):
    """The same graph read from a GFA file (the way every command builds its graph): records in any
    order, plain or gzip, LF or CRLF, empty lines, header line, last record without a terminator."""
    from gaftools.gfa import GFA
    s = [f"S\t{n}\t{seq or '*'}" for n, seq in model.nodes.items()]
    l = [f"L\t{a}\t{oa}\t{b}\t{ob}\t{ov}M" for a, oa, b, ob, ov in model.links]
    style = style or rng.choice(["s_then_l", "l_then_s", "mixed"])
    if style == "s_then_l":
        body = s + l
    elif style == "l_then_s":
        body = l + s
    else:
        body = s + l
        rng.shuffle(body)
    if rng.random() < 0.3:
        body.insert(0, "H\tVN:Z:1.0")
    if rng.random() < 0.3 and len(body) > 1:
        body.insert(rng.randint(1, len(body) - 1), "")
    nl = "\r\n" if rng.random() < 0.15 else "\n"
    text = nl.join(body) + ("" if rng.random() < 0.3 else nl)
    M.hit("graphs_loaded_from_file")
    if not text.endswith("\n"):
        M.hit("file_without_final_newline")
    if rng.random() < 0.3:
        import gzip
        path = os.path.join(casedir, f"m{rng.randint(0, 10**9)}.gfa.gz")
        with gzip.open(path, "wb") as f:
            f.write(text.encode())
    else:
        path = os.path.join(casedir, f"m{rng.randint(0, 10**9)}.gfa")
        with open(path, "w", newline="") as f:
            f.write(text)
    g = GFA(path)
    os.remove(path)
    return g


def build_real(model, via_file=None):
    from gaftools.gfa import GFA
    if via_file is not None:
        return build_from_file(model, *via_file)
    g = GFA()
    for n, seq in model.nodes.items():
        g.add_node(n, seq)
    for a, oa, b, ob, ov in model.links:
        g.add_edge(a, oa, b, ob, ov)
    return g


# -- contracts --------------------------------------------------------------------------------

def _ref_for(self):
    key = id(self)
    adj = adj_from_real(self)
    return adj


def post_biccs(self, set_of_nodes, result):
    M.hit("post:biccs")
    if set_of_nodes is not None:
        return True
    adj = _ref_for(self)
    comps = bcc.components(adj)
    if len(comps) != 1:
        M.hit("post:biccs_skipped_disconnected")
        return True
    blks, artic = bcc.blocks(adj)
    got_blocks = sorted(sorted(c) for c in result[0])
    exp_blocks = sorted(sorted(b) for b in blks)
    if got_blocks != exp_blocks:
        M.record("biccs_blocks", f"biccs() blocks {got_blocks[:6]} != reference {exp_blocks[:6]}",
                 adj={k: sorted(v) for k, v in list(adj.items())[:40]})
    if set(result[1]) != artic:
        M.record("biccs_artic", f"articulation points {sorted(result[1])[:10]} != reference {sorted(artic)[:10]}",
                 adj={k: sorted(v) for k, v in list(adj.items())[:40]})
    if artic:
        M.hit("biccs_with_artic")
    return True


def post_all_components(self, result):
    M.hit("post:all_components")
    adj = _ref_for(self)
    exp = sorted(sorted(c) for c in bcc.components(adj))
    got = sorted(sorted(c) for c in result)
    if exp != got:
        M.record("components", f"all_components() {got[:5]} != reference {exp[:5]}")
    if any(n.visited for n in self.nodes.values()):
        M.record("components_visited_flag", "visited flags not reset after all_components()")
    return True


def post_dfs(self, start_node, result):
    M.hit("post:dfs")
    if start_node not in self.nodes:
        return True
    adj = _ref_for(self)
    seen = {start_node}
    stack = [start_node]
    while stack:
        v = stack.pop()
        for w in adj[v]:
            if w not in seen:
                seen.add(w)
                stack.append(w)
    if sorted(result) != sorted(seen):
        M.record("dfs", f"dfs({start_node}) = {result[:12]} is not a permutation of its component "
                        f"{sorted(seen)[:12]}")
    return True


def setup(ctx):
    from gaftools import gfa
    M.attach(gfa.GFA, "biccs", post=post_biccs)
    M.attach(gfa.GFA, "all_components", post=post_all_components)
    M.attach(gfa.GFA, "dfs", post=post_dfs)


# -- oracles ----------------------------------------------------------------------------------

def check_structure(g, model, viol, where):
    """Invariant at a quiescent point: adjacency symmetric, no dangling ids, equal to the model."""
    M.hit("invariant_evals")
    exp = model.sides()
    if set(g.nodes) != set(model.nodes):
        viol.append({"kind": "edit_nodes", "msg": f"{where}: node set {sorted(g.nodes)} != {sorted(model.nodes)}"})
        return
    for nid, node in g.nodes.items():
        for side, name in ((0, "start"), (1, "end")):
            real = getattr(node, name)
            for (m, side_m, ov) in real:
                if m not in g.nodes:
                    viol.append({"kind": "edit_dangling", "msg": f"{where}: {nid}.{name} refers to deleted node {m}"})
                    continue
                other = g.nodes[m].start if side_m == 0 else g.nodes[m].end
                if (nid, side, ov) not in other:
                    viol.append({"kind": "edit_asymmetric",
                                 "msg": f"{where}: ({m},{side_m},{ov}) in {nid}.{name} but ({nid},{side},{ov}) "
                                        f"not on the other end"})
            if set(real) != exp[nid][side]:
                viol.append({"kind": "edit_adjacency",
                             "msg": f"{where}: {nid}.{name} = {sorted(real)} expected {sorted(exp[nid][side])}"})


def judge_graph(model, viol, situations, check_all=True, via_file=None):
    """Boundary oracle on a graph built through the library."""
    g = build_real(model, via_file)
    check_structure(g, model, viol, "after build")
    adj = model.adj()
    comps = bcc.components(adj)
    got = g.all_components()
    if sorted(sorted(c) for c in got) != sorted(sorted(c) for c in comps):
        viol.append({"kind": "components", "msg": f"all_components {got} != {comps}"})
    if len(comps) == 1 and len(adj) >= 1:
        blks, artic = bcc.blocks(adj)
        if len(adj) <= 2000:
            bydef = bcc.artic_by_definition(adj)
            if bydef != artic:
                raise RuntimeError(f"reference self-inconsistency: {artic} vs by definition {bydef}")
        rb, ra = g.biccs()
        if sorted(sorted(c) for c in rb) != sorted(sorted(b) for b in blks):
            viol.append({"kind": "biccs_blocks", "msg": f"biccs blocks {rb} != {blks}",
                         "witness": {"links": model.links[:40]}})
        if set(ra) != artic:
            viol.append({"kind": "biccs_artic", "msg": f"biccs articulation {ra} != {artic}",
                         "witness": {"links": model.links[:40]}})
        in_blocks = {}
        for bi, c in enumerate(rb):
            for x in c:
                in_blocks.setdefault(x, set()).add(bi)
        for a, _oa, b, _ob, _ov in model.links:
            if a != b:
                k = len(in_blocks.get(a, set()) & in_blocks.get(b, set()))
                if k != 1:
                    viol.append({"kind": "biccs_link_cover", "msg": f"link {a}-{b} lies in {k} reported blocks"})
                    break
    starts = list(model.nodes) if check_all else list(model.nodes)[:3]
    for k, s in enumerate(starts):
        d = g.dfs(s)
        comp = next(c for c in comps if s in c)
        if len(d) != len(set(d)) or set(d) != comp:
            viol.append({"kind": "dfs", "msg": f"dfs({s}) = {d}; component {sorted(comp)}",
                         "witness": {"links": model.links[:40]}})
        if k in (0, len(starts) - 1):
            # queries are interleaved on the SAME object: a traversal must not disturb a later query
            again = g.all_components()
            M.hit("query_after_query")
            if sorted(sorted(c) for c in again) != sorted(sorted(c) for c in comps):
                viol.append({"kind": "components_after_dfs", "msg": f"all_components() after dfs({s}) on the same graph = {again}, expected {comps}",
                             "witness": {"links": model.links[:40]}})
    if len(comps) == 1 and len(adj) >= 2:
        rb2, ra2 = g.biccs()
        if sorted(sorted(c) for c in rb2) != sorted(sorted(c) for c in rb) or set(ra2) != set(ra):
            viol.append({"kind": "biccs_after_queries", "msg": "biccs() repeated after dfs / all_components gives a different answer"})
    return g


def labelled(n, mask, rng):
    model = Model()
    names = [f"n{i}" for i in range(n)]
    for nm in names:
        model.add_node(nm, "ACGT"[: 1 + (len(nm) % 4)])
    k = 0
    for i in range(n):
        for j in range(i + 1, n):
            if mask >> k & 1:
                a, b = (names[i], names[j]) if rng.random() < 0.5 else (names[j], names[i])
                model.add_link(a, rng.choice("+-"), b, rng.choice("+-"), 0)
            k += 1
    return model


def connected_mask(n, mask):
    if n == 1:
        return True
    nb = [0] * n
    k = 0
    for i in range(n):
        for j in range(i + 1, n):
            if mask >> k & 1:
                nb[i] |= 1 << j
                nb[j] |= 1 << i
            k += 1
    seen = 1
    frontier = 1
    while frontier:
        i = frontier.bit_length() - 1
        frontier &= ~(1 << i)
        new = nb[i] & ~seen
        seen |= new
        frontier |= new
    return seen == (1 << n) - 1


def random_graph(rng):
    shape = rng.choice(["tree_chords", "bubble_chain", "clique_tails", "sparse", "cycle_mix"])
    n = rng.randint(10, 300)
    model = Model()
    names = [f"v{rng.randint(0, 10**6)}_{i}" for i in range(n)]
    rng.shuffle(names)
    for nm in names:
        model.add_node(nm, "A")
    def link(a, b):
        model.add_link(a, rng.choice("+-"), b, rng.choice("+-"), rng.choice([0, 0, 0, 5]))
    if shape == "tree_chords":
        for i in range(1, n):
            link(names[rng.randrange(i)], names[i])
        for _ in range(rng.randint(0, n // 3)):
            link(rng.choice(names), rng.choice(names))
    elif shape == "bubble_chain":
        i = 0
        prev = names[0]
        i = 1
        while i < n:
            k = min(rng.randint(1, 4), n - i)
            inner = names[i:i + k]
            i += k
            if i >= n:
                for x in inner:
                    link(prev, x)
                break
            nxt = names[i]
            i += 1
            for x in inner:
                link(prev, x)
                link(x, nxt)
            if rng.random() < 0.3:
                link(prev, nxt)
            prev = nxt
    elif shape == "clique_tails":
        k = rng.randint(3, 7)
        for a, b in itertools.combinations(names[:k], 2):
            link(a, b)
        for i in range(k, n):
            link(names[rng.randrange(max(1, i - 3), i)], names[i])
    elif shape == "sparse":
        for _ in range(rng.randint(n // 2, n + n // 2)):
            link(rng.choice(names), rng.choice(names))
    else:
        i = 0
        anchor = names[0]
        i = 1
        while i < n:
            k = min(rng.randint(2, 9), n - i)
            cyc = [anchor] + names[i:i + k]
            i += k
            for a, b in zip(cyc, cyc[1:] + cyc[:1]):
                link(a, b)
            anchor = rng.choice(cyc)
    for _ in range(rng.randint(0, 3)):
        a = rng.choice(names)
        link(a, a)
    return model, shape


def run_history(rng, viol, situations):
    from gaftools.gfa import GFA
    ids = [f"h{i}" for i in range(rng.randint(2, 8))]
    int_ids = rng.random() < 0.25
    if int_ids:
        # add_node accepts any id and files it under str(id) (integer ids as a caller numbering its nodes has them)
        ids = [str(i) for i in range(1, rng.randint(3, 9))]
        situations["history_integer_ids"] += 1
    g = GFA()
    model = Model()
    ops = []
    nops = rng.randint(1, 60)
    deleted_once = set()
    quiet_run = rng.random() < 0.5
    for step in range(nops):
        live = list(model.nodes)
        r = rng.random()
        if not live or r < 0.25:
            n = rng.choice(ids)
            seq = "".join(rng.choice("ACGT") for _ in range(rng.randint(0, 5)))
            if n in deleted_once and n not in model.nodes:
                situations["history_readd_deleted"] += 1
            ops.append(("add_node", n, seq))
            g.add_node(int(n) if int_ids and rng.random() < 0.7 else n, seq)
            model.add_node(n, seq)
        elif r < 0.75:
            a, b = rng.choice(live), rng.choice(live)
            if rng.random() < 0.15:
                b = a
                situations["history_self_link"] += 1
            oa, ob, ov = rng.choice("+-"), rng.choice("+-"), rng.choice([0, 0, 3])
            if any(l[0] == a and l[2] == b for l in model.links):
                situations["history_parallel_link"] += 1
            ops.append(("add_edge", a, oa, b, ob, ov))
            g.add_edge(a, oa, b, ob, ov)
            model.add_link(a, oa, b, ob, ov)
        else:
            n = rng.choice(live)
            ops.append(("remove_node", n))
            if rng.random() < 0.5:
                g.remove_node(n)
            else:
                del g[n]
            model.remove_node(n)
            deleted_once.add(n)
            situations["history_deletions"] += 1
        M.hit("history_ops")
        before = len(viol)
        check_structure(g, model, viol, f"after op {step} {ops[-1]}")
        if quiet_run and step < nops - 1 and rng.random() < 0.6:
            # several edits between two queries (anything remembered by a query must not survive them)
            situations["edits_without_query_between"] += 1
            if len(viol) > before:
                for v in viol[before:]:
                    v.setdefault("witness", {})["ops"] = ops
                break
            continue
        fresh = build_real(model)
        if not (g.is_equal_to(fresh, only_topo=True) and fresh.is_equal_to(g, only_topo=True)):
            viol.append({"kind": "edit_not_equal_fresh", "msg": f"after op {step} {ops[-1]}: is_equal_to(fresh graph) is False"})
        if model.nodes and rng.random() < 0.3:
            s0 = rng.choice(list(model.nodes))
            d = g.dfs(s0)  # a traversal between the edits; its own answer is judged by the contract
            M.hit("query_after_query")
        exp = sorted(sorted(c) for c in bcc.components(model.adj()))
        got = sorted(sorted(c) for c in g.all_components())
        if exp != got:
            viol.append({"kind": "components_after_edit", "msg": f"after op {step}: {got} != {exp}"})
        if len(viol) > before:
            for v in viol[before:]:
                v.setdefault("witness", {})["ops"] = ops
            break
    if not viol and model.nodes and rng.random() < 0.35:
        # a component taken out as its own graph (graph_from_comp, as order_gfa does) and edited there:
        # the sub-graph must equal the model of that component after the deletion, and the graph it
        # was taken from must still be a graph (adjacency symmetric on both ends of whatever it holds)
        adj = model.adj()
        comps = bcc.components(adj)
        comp = set(rng.choice(sorted(sorted(c) for c in comps)))
        child = g.graph_from_comp(comp)
        cm = Model()
        for n in model.nodes:
            if n in comp:
                cm.add_node(n, model.nodes[n])
        for l in model.links:
            if l[0] in comp:
                cm.add_link(*l)
        check_structure(child, cm, viol, f"sub-graph of component {sorted(comp)}")
        n = rng.choice(sorted(comp))
        ops.append(("graph_from_comp+remove_node", sorted(comp), n))
        child.remove_node(n)
        cm.remove_node(n)
        situations["history_subgraph_deletion"] += 1
        check_structure(child, cm, viol, f"sub-graph after remove_node({n})")
        check_symmetric(g, viol, f"graph a sub-graph was taken from, after remove_node({n}) in the sub-graph")
        for v in viol:
            v.setdefault("witness", {})["ops"] = ops
    return ops


def check_symmetric(g, viol, where):
    for nid, node in g.nodes.items():
        for side, name in ((0, "start"), (1, "end")):
            for (m, side_m, ov) in getattr(node, name):
                if m not in g.nodes:
                    viol.append({"kind": "edit_dangling", "msg": f"{where}: {nid}.{name} refers to deleted node {m}"})
                    continue
                other = g.nodes[m].start if side_m == 0 else g.nodes[m].end
                if (nid, side, ov) not in other:
                    viol.append({"kind": "edit_asymmetric",
                                 "msg": f"{where}: ({m},{side_m},{ov}) in {nid}.{name} but ({nid},{side},{ov}) "
                                        f"not on the other end"})


def run_case(ctx, rng, index, casedir):
    import collections
    fam = _FAM.get(ctx.tier) or _families(ctx.tier)
    kind = fam[index]
    viol = []
    sit = collections.Counter()
    sigs = []
    evals = 0
    sample = None
    if kind[0] == "enum":
        _k, n, start = kind
        m = n * (n - 1) // 2
        for mask in range(start, min(start + CHUNK, 1 << m)):
            if not connected_mask(n, mask):
                continue
            model = labelled(n, mask, rng)
            judge_graph(model, viol, sit)
            evals += 1
            sit["exhaustive_connected_graphs"] += 1
            if n >= 3 and len(model.links) >= 2:
                sigs.append(f"e{n}:{mask}")
            if sample is None and n >= 4:
                sample = {"family": "enum", "n": n, "mask": mask, "links": model.links}
    elif kind[0] == "multi_ex":
        # every connected simple graph on <=3 nodes x decorations: each present edge doubled or not,
        # each node with 0/1 self-link, every orientation labelling of every link
        part = kind[1]
        cnt = 0
        for n in (1, 2, 3):
            m = n * (n - 1) // 2
            for mask in range(1 << m):
                if not connected_mask(n, mask):
                    continue
                edges = [(i, j) for k, (i, j) in enumerate(itertools.combinations(range(n), 2)) if mask >> k & 1]
                for dbl in itertools.product([1, 2], repeat=len(edges)):
                    for selfs in itertools.product([0, 1], repeat=n):
                        links = []
                        for (i, j), d in zip(edges, dbl):
                            links += [(i, j)] * d
                        links += [(i, i) for i in range(n) if selfs[i]]
                        if len(links) > 5:
                            continue
                        for orient in itertools.product(["++", "+-", "-+", "--"], repeat=len(links)):
                            cnt += 1
                            if cnt % 16 != part:
                                continue
                            model = Model()
                            for i in range(n):
                                model.add_node(f"m{i}", "AC")
                            for (i, j), o in zip(links, orient):
                                model.add_link(f"m{i}", o[0], f"m{j}", o[1], 0)
                            judge_graph(model, viol, sit)
                            evals += 1
                            M.hit("multigraph_cases")
                            if n >= 3 and len(links) >= 2:
                                sigs.append(stable_hash(model.links))
                            if sample is None and len(links) >= 3:
                                sample = {"family": "multigraph_exhaustive", "links": model.links}
    elif kind[0] == "multi_sample":
        n = rng.randint(4, 5)
        model = Model()
        for i in range(n):
            model.add_node(f"m{i}", "ACG")
        for i in range(1, n):
            model.add_link(f"m{rng.randrange(i)}", rng.choice("+-"), f"m{i}", rng.choice("+-"), 0)
        for _ in range(rng.randint(1, 6)):
            a, b = rng.randrange(n), rng.randrange(n)
            model.add_link(f"m{a}", rng.choice("+-"), f"m{b}", rng.choice("+-"), rng.choice([0, 0, 7]))
        judge_graph(model, viol, sit, via_file=(rng, casedir) if rng.random() < 0.4 else None)
        evals = 1
        M.hit("multigraph_cases")
        sigs.append(stable_hash(model.links))
        sample = {"family": "multigraph_sampled", "links": model.links}
    elif kind[0] == "random":
        model, shape = random_graph(rng)
        judge_graph(model, viol, sit, check_all=False, via_file=(rng, casedir) if rng.random() < 0.4 else None)
        evals = 1
        sit["random_" + shape] += 1
        sigs.append(stable_hash(model.links))
        sample = {"family": "random", "shape": shape, "nodes": len(model.nodes), "links": len(model.links)}
    elif kind[0] == "history":
        ops = run_history(rng, viol, sit)
        evals = 1
        if len(ops) >= 3 and any(o[0] == "remove_node" for o in ops):
            sigs.append(stable_hash(ops))
        sample = {"family": "history", "ops": ops[:25]}
    elif kind[0] == "bigfile":
        n = rng.randint(100_200, 101_000)
        model = Model()
        for i in range(n):
            model.add_node(f"b{i}", "A")
        for i in range(n - 1):
            model.add_link(f"b{i}", rng.choice("+-"), f"b{i + 1}", rng.choice("+-"), 0)
            if i % 251 == 0 and i + 2 < n:
                model.add_link(f"b{i}", "+", f"b{i + 2}", "+", 0)
        judge_graph(model, viol, sit, check_all=False, via_file=(rng, casedir, rng.choice(["mixed", "l_then_s"])))
        evals = 1
        sit["big_graph_files"] += 1
        sigs.append(f"bigfile{kind[1]}")
        sample = {"family": "bigfile", "nodes": n, "links": len(model.links)}
    elif kind[0] == "chr1":
        from gaftools.gfa import GFA
        g = GFA(os.path.join(REPO, "tests/data/large-graph-chr1.gfa.gz"), low_memory=True)
        adj = adj_from_real(g)
        comps = g.all_components()  # contract compares with the reference
        big = max(comps, key=len)
        sub = g.graph_from_comp(big)
        sub.biccs()
        d = g.dfs(next(iter(big)))
        blks, artic = bcc.blocks({v: adj[v] for v in big})
        sample_nodes = rng.sample(sorted(big), 200)
        bydef = bcc.artic_by_definition({v: adj[v] for v in big}, only=sample_nodes)
        if bydef != (artic & set(sample_nodes)):
            raise RuntimeError("reference self-inconsistency on the chr1 graph")
        if set(d) != big or len(d) != len(big):
            viol.append({"kind": "dfs", "msg": "dfs on chr1 graph is not a permutation of the component"})
        evals = 1
        sit["chr1_graph_nodes"] += len(g.nodes)
        sigs.append("chr1")
        sample = {"family": "chr1", "nodes": len(g.nodes), "components": len(comps),
                  "articulation_points": len(artic), "blocks": len(blks)}
    return {"sigs": sigs, "evals": evals, "situations": dict(sit), "violations": viol, "sample": sample}
