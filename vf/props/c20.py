"""C20 — phase annotates every record without altering it.

Boundary oracle with the independent GAF reader on the -o output of the real `gaftools phase`:
one well-formed record per input record in order, mandatory columns (incl. strand) and optional
fields unchanged, plus ps:Z / ht:Z carrying <contig>-<phase set> / haplotype of one of the read's
TSV rows, or 'none' for absent / unphased reads.
"""

import collections
import os
from vf.util import vary_name  # noqa: E402

from vf import monitor as M
from vf.cli import run_cli
from vf.gen import rgfa, gaf as ggaf
from vf.ref import gaf as rgaf
from vf.util import stable_hash, read_text

ID = "C20"
LEVEL = "exploration"
RULE = ("per case one rGFA, a GAF of 1-60 records (both strands, stable or unstable paths, safe "
        "optional fields, plain or BGZF) and a haplotag TSV (header line; reads phased H1/H2, "
        "'none', missing, listed several times); an evaluation is one output record judged; "
        "non-trivial = record that is phased or on the '-' strand; distinct by (record, TSV rows of its read)")
ASSUMPTIONS = ["-o output is the observation point (stdout default is not judged)",
               "safe-class optional fields, read names without spaces (tag grammar is C16's subject)",
               "with duplicate TSV rows any of the read's rows is accepted",
               "ps:Z / ht:Z may be placed anywhere among the optional fields"]


def plan(tier):
    return {"cases": 1000 if tier == "quick" else 150000, "shards": 16,
            "shard_budget_s": 300 if tier == "quick" else 3300}


def required(tier):
    return ["records_judged", "minus_strand_records", "phased_records", "unphased_none_records",
            "missing_from_tsv_records", "duplicate_tsv_reads", "stable_path_files", "unstable_path_files", "bgzf_input",
            "multi_record_reads", "multi_record_reads_interleaved", "records_already_phased"]


def setup(ctx):
    pass


def contigs_of(g):
    return list(g.contigs)


def rowset_in_file_order(rows, name):
    return [r for r in rows if r[0] == name]


def run_case(ctx, rng, index, casedir):
    sit = collections.Counter()
    viol = []
    g = rgfa.gen_rgfa(rng, size="small", id_style="s")
    n = rng.choice([1, 2, rng.randint(3, 20), rng.randint(20, 60)])
    if rng.random() < 0.02:
        n = 0
        sit["zero_record_files"] += 1
    # a compressed file of several MiB whose records end exactly on every multiple of 1 MiB of the
    # decompressed stream (4.3 MiB on every change, 33 MiB in the thorough tier)
    aligned = index == 17
    if aligned:
        n = ((4 << 20) + 300_000 if ctx.tier == "quick" else (33 << 20)) // 400 + 50
        sit["files_with_records_ending_on_MiB_boundaries"] += 1
    walks = ggaf.make_walks(g, rng, n, maxlen=6 if not aligned else 2, forced=n >= 6)
    lines = [ggaf.make_record(g, rng, w, f"r{index}_{i}", offsets="any", tags="safe").line for i, w in enumerate(walks)]
    # several records per read (supplementary alignments), adjacent and interleaved with other reads
    if len(lines) >= 3:
        for i in range(1, len(lines)):
            if rng.random() < 0.3:
                j = rng.randrange(i)
                c = lines[i].split("\t")
                c[0] = lines[j].split("\t")[0]
                lines[i] = "\t".join(c)
                sit["multi_record_reads"] += 1
                if j < i - 1:
                    sit["multi_record_reads_interleaved"] += 1
    # records that already carry ps:Z / ht:Z (a GAF that was phased before and is phased again)
    if rng.random() < 0.25:
        for i in range(len(lines)):
            if rng.random() < 0.5:
                c = lines[i].split("\t")
                old = [f"ps:Z:{rng.choice(contigs_of(g))}-{rng.randint(1, 99999)}", f"ht:Z:{rng.choice(['H1', 'H2'])}"] if rng.random() < 0.7 else ["ps:Z:none", "ht:Z:none"]
                pos = rng.randint(12, len(c))
                lines[i] = "\t".join(c[:pos] + old + c[pos:])
                sit["records_already_phased"] += 1
    stable = rng.random() < 0.5
    if stable:
        lines = [rgaf.ref_to_stable(g, l) for l in lines]
        sit["stable_path_files"] += 1
    else:
        # '-' strand unstable records are legal GAF: flip the strand column of some records
        # (phase never interprets coordinates)
        out = []
        for l in lines:
            c = l.split("\t")
            if rng.random() < 0.3:
                c[4] = "-"
            out.append("\t".join(c))
        lines = out
        sit["unstable_path_files"] += 1
    mode = rng.choice(["plain", "plain", "bgzf"])
    if aligned:
        mode = "bgzf"
        lines, hits = ggaf.align_records([l for l in lines if len(l) < 1900], unit=1 << 20, min_len=400)
        sit["record_ends_on_MiB_boundaries"] += hits
    if mode != "plain":
        sit["bgzf_input"] += 1
    gaf = os.path.join(casedir, vary_name(rng, "in.gaf") + ("" if mode == "plain" else ".gz"))
    if rng.random() < 0.06:
        gaf = os.path.join(casedir, "phased.gaf.tmp")  # provisional name of the input = output name + ".tmp"
        sit["input_named_output_dot_tmp"] += 1
    ggaf.write_gaf(gaf, lines, mode=mode, rng=rng, layout="tiny" if not aligned else "standard", **({"final_newline": True} if aligned else {}))
    # haplotag TSV
    rows = []
    truth = collections.defaultdict(list)
    names = [l.split("\t")[0] for l in lines]
    contigs = list(g.contigs)
    # phase-set ids are positions: unique within a contig only, and shared by all reads of a block
    ps_pool = [str(rng.randint(1, 99999)) for _ in range(rng.randint(1, 4))]
    for nm in names:
        r = rng.random()
        if r < 0.2:
            continue  # missing from the TSV
        k = 2 if rng.random() < 0.15 else 1
        for _ in range(k):
            if rng.random() < 0.3:
                row = (nm, "none", "none", rng.choice(contigs))
            else:
                ps = rng.choice(ps_pool) if rng.random() < 0.7 else str(rng.randint(1, 99999))
                row = (nm, rng.choice(["H1", "H2"]), ps, rng.choice(contigs))
            rows.append(row)
            truth[nm].append(row)
        if k == 2:
            sit["duplicate_tsv_reads"] += 1
    rows.append(("not_in_gaf", "H1", "5", contigs[0]))
    rng.shuffle(rows)
    tsv = os.path.join(casedir, "haplotag.tsv")
    nl = "\r\n" if rng.random() < 0.1 else "\n"
    with open(tsv, "w", newline="") as f:
        body = (["#readname\thaplotype\tphaseset\tchromosome"] if rng.random() < 0.8 else []) + ["\t".join(r) for r in rows]
        if rng.random() < 0.15:
            f.write(nl.join(body))  # the last row is not terminated
            sit["tsv_without_final_newline"] += 1
        else:
            f.write(nl.join(body) + nl)
    out = os.path.join(casedir, "phased.gaf")
    o = run_cli(["phase", gaf, tsv, "-o", out])
    sigs = []
    evals = 0
    if not o.ok:
        viol.append({"kind": "phase_failed", "msg": f"phase: {o.brief()}", "witness": {"outcome": o.to_json()}})
    else:
        outl = read_text(out).split("\n")
        if outl and outl[-1] == "":
            outl = outl[:-1]
        if len(outl) != len(lines):
            viol.append({"kind": "record_count", "msg": f"{len(lines)} records in, {len(outl)} lines out"})
        for i, (il, ol) in enumerate(zip(lines, outl)):
            evals += 1
            M.hit("records_judged")
            a, b = il.split("\t"), ol.split("\t")
            nm = a[0]
            rowset = truth.get(nm, [])
            phased_rows = [r for r in rowset if r[1] != "none"]
            if a[4] == "-":
                sit["minus_strand_records"] += 1
            if not rowset:
                sit["missing_from_tsv_records"] += 1
            elif phased_rows:
                sit["phased_records"] += 1
            else:
                sit["unphased_none_records"] += 1
            wit = {"in": il[:300], "out": ol[:300], "strand": a[4], "phased": bool(phased_rows)}
            if a[4] == "-" or phased_rows:
                sigs.append(stable_hash([il, rowset]))
            if b[:12] != a[:12]:
                bad = [k + 1 for k in range(12) if k >= len(b) or b[k] != a[k]]
                viol.append({"kind": "mandatory_column", "msg": f"record {nm}: mandatory column(s) {bad} changed: {a[:12]} -> {b[:12]}", "witness": dict(wit, columns=bad)})
                continue
            opt = b[12:]
            malformed = [f for f in opt if not rgaf.well_formed_field(f)]
            if malformed:
                viol.append({"kind": "malformed_line", "msg": f"record {nm}: malformed optional column(s) {malformed[:4]!r} in {ol[:200]!r}", "witness": dict(wit, malformed=malformed[:6])})
                continue
            # the record GAINS one ps:Z and one ht:Z field; every optional field of the input (including
            # ps/ht fields it may already have carried) is still there, in order
            gained = None
            psi = [k for k, f in enumerate(opt) if f.startswith("ps:Z:")]
            hti = [k for k, f in enumerate(opt) if f.startswith("ht:Z:")]
            for pi in psi:
                for hi in hti:
                    if [f for k, f in enumerate(opt) if k not in (pi, hi)] == a[12:]:
                        gained = (opt[pi], opt[hi])
                        break
                if gained:
                    break
            if gained is None:
                rest = [f for f in opt if not f.startswith(("ps:Z:", "ht:Z:"))]
                if rest != [f for f in a[12:] if not f.startswith(("ps:Z:", "ht:Z:"))]:
                    viol.append({"kind": "optional_fields", "msg": f"record {nm}: optional fields {a[12:]} -> {opt}", "witness": wit})
                else:
                    viol.append({"kind": "ps_ht_missing", "msg": f"record {nm}: no gained ps:Z/ht:Z pair: input fields {a[12:]}, output fields {opt}", "witness": wit})
                continue
            ps, ht = [gained[0]], [gained[1]]
            allowed = {("none", "none")} if not phased_rows else set()
            for r in rowset:
                if r[1] == "none":
                    allowed.add(("none", "none"))
                else:
                    allowed.add((f"{r[3]}-{r[2]}", r[1]))
            if len({(r[1], r[2], r[3]) for r in rowset}) > 1:
                # conflicting duplicate rows: the statement does not say which one applies; which listing
                # the tool used is recorded as an observation only
                first = rowset_in_file_order(rows, nm)[0]
                exp_first = ("none", "none") if first[1] == "none" else (f"{first[3]}-{first[2]}", first[1])
                sit["conflicting_rows:first_listing_used" if (ps[0][5:], ht[0][5:]) == exp_first else "conflicting_rows:other_listing_used"] += 1
            if (ps[0][5:], ht[0][5:]) not in allowed:
                viol.append({"kind": "ps_ht_value", "msg": f"record {nm}: {ps[0]} {ht[0]} but the TSV rows of the read allow {sorted(allowed)}", "witness": wit})
    return {"sigs": sigs, "evals": max(evals, 1), "situations": dict(sit), "violations": viol,
            "sample": {"records": len(lines), "stable": stable, "tsv_rows": [list(r) for r in rows[:3]], "first": (lines[0][:160] if lines else None)}}
