"""C17 — Results do not depend on input compression.

Metamorphic oracle over real runs: the same data as {plain, BGZF(standard 64 KiB blocks, own writer),
BGZF(tiny / line-start blocks), BGZF(pysam writer)} GAF x {plain, gzip} graph must give the same
records / report text for view, sort, stat, realign, phase, find_path, order_gfa, and the same
node->record associations after resolving each index's offsets IN ITS OWN FILE (index .gvi,
sort .gsi) through the real reader and the independent BGZF block parser.
"""

import collections
import gzip
import os
import pickle
import shutil

from vf import bgzf, monitor as M
from vf.cli import run_cli
from vf.gen import rgfa, gaf as ggaf, reads as greads
from vf.props import view_common as VC, sort_common as SC, order_common as OC, c19
from vf.ref import gaf as rgaf
from vf.util import stable_hash, read_text

ID = "C17"
LEVEL = "exploration"
RULE = ("per case one subcommand (round robin: view -f, index + view -n, sort, stat, realign, phase, "
        "find_path, order_gfa) run on 4 compression configurations of the same data, GAFs of "
        "700-3000 records (> 64 KiB, several standard BGZF blocks, lines crossing block "
        "boundaries; some lines longer than a block in thorough); an evaluation is one "
        "(subcommand, configuration) run; non-trivial = BGZF configuration with >= 2 data blocks; "
        "distinct by (subcommand, data hash, configuration)")
ASSUMPTIONS = ["blank lines are outside the domain", "gzip graphs are written with the stdlib gzip module; BGZF GAFs by the harness's writer and by pysam",
               "safe-class optional fields"]
SUBS = ["view_format", "index_view", "sort", "stat", "realign", "phase", "find_path", "order_gfa"]
CONFIGS = [("plain", None, False), ("bgzf", "standard", False), ("bgzf", "tiny", True), ("pysam", None, True)]


def plan(tier):
    return {"cases": 96 if tier == "quick" else 1920, "shards": 16,
            "shard_budget_s": 500 if tier == "quick" else 3300}


def required(tier):
    return [f"sub:{s}" for s in SUBS] + ["bgzf_multi_block_configs", "lines_crossing_block_boundary", "gz_graph_configs",
                                         "index_offsets_resolved", "gsi_offsets_resolved", "text_variant_crlf", "text_variant_utf8",
                                         "gz_graph_multi_member", "gz_graph_single_member", "records_ending_on_64k_boundary"]


def setup(ctx):
    pass


def bgzf_members(path):
    """number of gzip members of a .gz file (1 for ordinary gzip output)"""
    import zlib
    data = open(path, "rb").read()
    n = 0
    while data:
        d = zlib.decompressobj(wbits=zlib.MAX_WBITS | 16)
        d.decompress(data)
        data = d.unused_data
        n += 1
    return n


def text_variant(lines, rng, sit, bom=True, blank_p=0.3):
    """text-level variants every reader accepts today: CRLF line ends and/or a non-ASCII (multi-byte
    UTF-8) character in an optional field; the same bytes go into the plain and the BGZF copies"""
    if bom and lines and rng.random() < 0.2:
        # a UTF-8 byte order mark left by an editor: today it stays glued to the first read name in
        # every reader; whatever is done with it must not depend on the compression
        lines = ["\ufeff" + lines[0]] + list(lines[1:])
        sit["text_variant_bom"] += 1
    if lines and rng.random() < blank_p:
        # records ending in a blank or a TAB (paste / awk pipelines): whatever a command does with the
        # trailing white space, it must do the same for every compression of the same bytes
        lines = list(lines)
        for i in range(0, len(lines), rng.randint(1, 40)):
            lines[i] = lines[i] + rng.choice([" ", "\t", " \t"])
        sit["text_variant_trailing_blank"] += 1
    if rng.random() >= 0.3:
        return lines
    kind = rng.choice(["crlf", "utf8", "both"])
    lines = list(lines)
    if kind in ("utf8", "both"):
        for i in range(0, len(lines), rng.randint(1, 7)):
            lines[i] = lines[i] + "\tZ9:Z:M\u00fcller\u2713"
        sit["text_variant_utf8"] += 1
    if kind in ("crlf", "both"):
        lines = [l + "\r" for l in lines]
        sit["text_variant_crlf"] += 1
    return lines


def pow2_record(lines, rng, sit, force=None):
    """adversarial record length: one record that is not the last one is padded to exactly 2**k bytes
    (without or with its line terminator), k = 12 .. 16 - the sizes of read buffers and of size-limited
    readline calls"""
    if len(lines) < 2 or (force is None and rng.random() >= 0.3):
        return lines
    lines = list(lines)
    i = rng.randrange(len(lines) - 1)
    cr = lines[i].endswith("\r")
    body = lines[i][:-1] if cr else lines[i]
    k, less = force if force is not None else (rng.randint(12, 16), rng.choice([0, 1]))
    target = 2 ** k - less - (1 if cr and rng.random() < 0.5 else 0)
    need = target - len(lines[i].encode())
    if need >= 7 and "\tzq:" not in body:
        lines[i] = body + "\tzq:Z:" + "q" * (need - 6) + ("\r" if cr else "")
        sit["records_of_power_of_two_length"] += 1
    return lines


def align_to_64k(lines, rng, sit, pow2=None):
    """adversarial layout: pad records so that a (non-final) record ends exactly at an uncompressed
    offset k * 65536 - the chunk size at which BGZF data is inflated"""
    lines = pow2_record(lines, rng, sit, force=pow2)
    if rng.random() >= 0.5:
        return lines
    lines = list(lines)
    cum = 0
    boundary = 65536
    i = 0
    padded = -1  # a record longer than 64 KiB crosses several boundaries: its predecessor is padded once
    while i < len(lines):
        ln = len(lines[i].encode()) + 1
        if cum < boundary < cum + ln and i > 0 and padded != i:
            padded = i
            gap = boundary - cum
            cr = lines[i - 1].endswith("\r")
            body = lines[i - 1][:-1] if cr else lines[i - 1]
            if gap >= 7:
                lines[i - 1] = body + "\tzp:Z:" + "p" * (gap - 6) + ("\r" if cr else "")
                cum += gap
                sit["records_ending_on_64k_boundary"] += 1
            boundary += 65536
            continue
        if cum + ln == boundary:
            sit["records_ending_on_64k_boundary"] += 1
        if cum + ln >= boundary:
            boundary += 65536 * ((cum + ln - boundary) // 65536 + 1)
        cum += ln
        i += 1
    return lines


def write_configs(casedir, lines, graph_writer, rng, sit):
    """returns list of (label, gaf_path, gfa_path)"""
    out = []
    for k, (mode, layout, gz) in enumerate(CONFIGS):
        d = os.path.join(casedir, f"cfg{k}")
        os.makedirs(d, exist_ok=True)
        gaf = os.path.join(d, "a.gaf" + ("" if mode == "plain" else ".gz"))
        ggaf.write_gaf(gaf, lines, mode=mode, rng=rng, layout=layout or "standard")
        if mode != "plain":
            bi = bgzf.BgzfIndex(gaf)
            if bi.data_blocks() >= 2:
                sit["bgzf_multi_block_configs"] += 1
            # lines that cross a block boundary
            bounds = {u for _c, u, n in bi.blocks if n > 0 and u > 0}
            pos = 0
            for l in lines:
                e = pos + len(l.encode()) + 1
                if any(pos < b < e for b in bounds if pos < b < e):
                    sit["lines_crossing_block_boundary"] += 1
                pos = e
        gfa = graph_writer(os.path.join(d, "g.gfa" + (".gz" if gz else ""))) if graph_writer else None
        if gz:
            sit["gz_graph_configs"] += 1
            if gfa and bgzf_members(gfa) > 1:
                sit["gz_graph_multi_member"] += 1
            else:
                sit["gz_graph_single_member"] += 1
        out.append((f"{mode}/{layout or '-'}/{'gz' if gz else 'plain'}", gaf, gfa))
    return out


def all_equal(results, viol, what, sub):
    base_label, base = results[0]
    for label, r in results[1:]:
        if r != base:
            if isinstance(r, str) and isinstance(base, str):
                a, b = base.split("\n"), r.split("\n")
                d = next((i for i in range(min(len(a), len(b))) if a[i] != b[i]), min(len(a), len(b)))
                detail = f"{len(a)} vs {len(b)} lines, first difference at line {d}: {a[d][:80] if d < len(a) else None!r} vs {b[d][:80] if d < len(b) else None!r}"
            else:
                detail = f"{str(base)[:120]} vs {str(r)[:120]}"
            viol.append({"kind": "compression_dependence", "msg": f"{sub}: {what} differs between {base_label} and {label}: {detail}",
                         "witness": {"sub": sub, "what": what, "configs": [base_label, label]}})


def big_walk_records(g, rng, index, n, tags="safe", offsets="any", long_every=0):
    walks = ggaf.make_walks(g, rng, n, maxlen=8, forced=False)
    lines = []
    for i, wk in enumerate(walks):
        t = tags
        if long_every and i % long_every == 0:
            t = [f"zl:Z:{'q' * 70000}"]
        lines.append(ggaf.make_record(g, rng, wk, f"r{index}_{i}", offsets=offsets, tags=t).line)
    return lines, walks


def run_case(ctx, rng, index, casedir):
    sit = collections.Counter()
    viol = []
    sub = SUBS[index % len(SUBS)]
    sit["sub:" + sub] += 1
    nrec = rng.randint(700, 1500) if ctx.tier == "quick" else rng.randint(700, 3000)
    long_every = 0 if ctx.tier == "quick" else rng.choice([0, 0, 400])
    evals = 0
    if sub in ("view_format", "index_view", "phase"):
        g = rgfa.gen_rgfa(rng, size="medium")
        lines, walks = big_walk_records(g, rng, index, nrec, long_every=long_every)
        stable = sub != "view_format" and rng.random() < 0.5
        if stable:
            lines = [rgaf.ref_to_stable(g, l) for l in lines]
        lines = align_to_64k(text_variant(lines, rng, sit), rng, sit)
        cfgs = write_configs(casedir, lines, lambda p: g.write(p, rng=rng), rng, sit)
        coords = rgaf.Coords(g)
        if sub == "view_format":
            res = []
            for label, gaf, gfa in cfgs:
                out = gaf + ".out"
                o = run_cli(["view", gaf, "-g", gfa, "-f", "stable", "-o", out])
                evals += 1
                res.append((label, read_text(out) if o.ok else f"<{o.brief()}>"))
            all_equal(res, viol, "converted records", sub)
            if res[0][1].count("\n") != len(lines):
                viol.append({"kind": "record_count", "msg": f"view -f stable wrote {res[0][1].count(chr(10))} lines for {len(lines)} records"})
        elif sub == "index_view":
            assoc, sel = [], []
            nodes = sorted({n for wk in walks for n, _ in wk})
            q = rng.sample(nodes, min(3, len(nodes)))
            line_index = {l: i for i, l in enumerate(lines)}
            touch = rng.random() < 0.4  # every copy of the GAF gets a newer modification time than its index
            if touch:
                sit["gaf_newer_than_index_cases"] += 1
            for label, gaf, gfa in cfgs:
                o = run_cli(["index", gaf, gfa])
                evals += 1
                if not o.ok:
                    assoc.append((label, f"<{o.brief()}>"))
                    continue
                if touch:
                    import time as _t
                    os.utime(gaf, (_t.time() + 30, _t.time() + 30))
                with open(gaf + ".gvi", "rb") as f:
                    ind = pickle.load(f)
                ind.pop("ref_contig", None)
                if gaf.endswith(".gz"):
                    bi = bgzf.BgzfIndex(gaf)
                    line_at = bi.line_at
                else:
                    data = open(gaf, "rb").read()
                    def line_at(off, data=data):
                        if not 0 <= off < len(data):
                            return None
                        e = data.find(b"\n", off)
                        return data[off:e if e != -1 else len(data)].decode()
                from gaftools.gaf import GAF
                real = GAF(gaf)
                a = {}
                bad = 0
                for key, offs in ind.items():
                    ids = set()
                    for off in set(offs):
                        M.hit("index_offsets_resolved")
                        try:
                            i = line_index.get(line_at(off))
                            al = real.read_line(off)
                        except Exception:  # noqa: BLE001 - an offset that cannot even be seeked to
                            i, al = None, None
                        if i is None or al is None or al.query_name != lines[i].split("\t")[0]:
                            bad += 1
                        ids.add(i)
                    a[key[0]] = sorted(x for x in ids if x is not None)
                try:
                    real.close()
                except OSError:
                    pass  # a reader that was seeked to an invalid offset cannot be closed cleanly
                if bad:
                    viol.append({"kind": "index_offset_unresolvable", "msg": f"{label}: {bad} index offsets do not resolve to a record start in their own file",
                                 "witness": {"sub": sub, "config": label}})
                assoc.append((label, a))
                out = gaf + ".sel"
                argv = ["view", gaf]
                for n in q:
                    argv += ["-n", n]
                o = run_cli(argv + ["-o", out])
                sel.append((label, read_text(out) if o.ok else f"<{o.brief()}>"))
            all_equal(assoc, viol, "node -> record association of the index", sub)
            all_equal(sel, viol, "view -n selection", sub)
            # the path that held the BGZF copy now holds the plain bytes (a work file rewritten with
            # another compression, same process): what is read from it must follow its content
            plain_cfg = next((c for c in cfgs if not c[1].endswith(".gz")), None)
            gz_cfg = next((c for c in cfgs if c[1].endswith(".gz")), None)
            if plain_cfg and gz_cfg and rng.random() < 0.5:
                sit["path_rewritten_with_other_compression"] += 1
                data = open(plain_cfg[1], "rb").read()
                with open(gz_cfg[1], "wb") as f:
                    f.write(data)
                if os.path.exists(gz_cfg[1] + ".gvi"):
                    os.remove(gz_cfg[1] + ".gvi")
                o = run_cli(["index", gz_cfg[1], gz_cfg[2]])
                if o.ok:
                    with open(gz_cfg[1] + ".gvi", "rb") as f:
                        ind2 = pickle.load(f)
                    ind2.pop("ref_contig", None)
                    a2 = {}
                    bad2 = 0
                    for key, offs in ind2.items():
                        ids = set()
                        for off in set(offs):
                            ln = None
                            if 0 <= off < len(data):
                                e = data.find(b"\n", off)
                                ln = data[off:e if e != -1 else len(data)].decode()
                            i = line_index.get(ln)
                            if i is None or (off > 0 and data[off - 1:off] != b"\n"):
                                bad2 += 1
                            ids.add(i)
                        a2[key[0]] = sorted(x for x in ids if x is not None)
                    ref_a = next((a for lab, a in assoc if lab == plain_cfg[0]), None)
                    if bad2 or (isinstance(ref_a, dict) and a2 != ref_a):
                        viol.append({"kind": "compression_dependence", "msg": f"{sub}: a path that held BGZF data and now holds the plain bytes is indexed differently from the plain file ({bad2} offsets that are not record starts)",
                                     "witness": {"sub": sub, "config": "rewritten:" + gz_cfg[0]}})
                else:
                    viol.append({"kind": "compression_dependence", "msg": f"{sub}: index of the rewritten path failed: {o.brief()}", "witness": {"sub": sub}})
        else:  # phase
            names = [l.split("\t")[0] for l in lines]
            tsv = os.path.join(casedir, "h.tsv")
            with open(tsv, "w") as f:
                f.write("#readname\thaplotype\tphaseset\tchromosome\n")
                for nm in names:
                    if rng.random() < 0.7:
                        f.write(f"{nm}\t{rng.choice(['H1', 'H2', 'none'])}\t{rng.randint(1, 999)}\tchr1\n")
            res = []
            for label, gaf, _gfa in cfgs:
                out = gaf + ".ph"
                o = run_cli(["phase", gaf, tsv, "-o", out])
                evals += 1
                res.append((label, read_text(out) if o.ok else f"<{o.brief()}>"))
            all_equal(res, viol, "phased records", sub)
    elif sub == "sort":
        w = SC.build(rng, casedir, index, nrec=nrec, mode="plain", text_variants=False)
        j = index // len(SUBS)  # the sort cases walk through the lengths 2**12 .. 2**16 (and one less) in turn
        w.lines = align_to_64k(text_variant(w.lines, rng, sit, blank_p=0.6), rng, sit, pow2=(12 + j % 5, (j // 5) % 2))
        cfgs = write_configs(casedir, w.lines, lambda p: w.g.write(p, bo_no=w.tags, rng=rng), rng, sit)
        res, idxres = [], []
        out_bgzip = rng.random() < 0.5  # the same output mode for every input configuration of the case
        if out_bgzip:
            sit["sort_bgzip_output_cases"] += 1
        for label, gaf, gfa in cfgs:
            out = gaf + ".sorted" + (".gz" if out_bgzip else "")
            o = run_cli(["sort", gaf, gfa, "--outgaf", out] + (["--bgzip"] if out_bgzip else []))
            evals += 1
            if not o.ok:
                res.append((label, f"<{o.brief()}>"))
                continue
            with open(out + ".gsi", "rb") as f:
                gsi = pickle.load(f)
            if out_bgzip:
                import gzip
                with gzip.open(out, "rb") as f:
                    text = f.read().decode()
                res.append((label, text))
                bi = bgzf.BgzfIndex(out)
                named = {}
                for c, v in sorted(gsi.items()):
                    named[c] = []
                    for vo in v:
                        l = bi.line_at(vo)
                        named[c].append(l.split("\t")[0] if l is not None else None)
                M.hit("gsi_offsets_resolved", 2 * len(gsi))
                idxres.append((label, named))
                continue
            text = read_text(out)
            res.append((label, text))
            starts = {}
            pos = 0
            for l in text.split("\n")[:-1]:
                starts[pos] = l.split("\t")[0]
                pos += len(l.encode()) + 1
            M.hit("gsi_offsets_resolved", 2 * len(gsi))
            idxres.append((label, {c: [starts.get(v[0]), starts.get(v[1])] for c, v in sorted(gsi.items())}))
        all_equal(res, viol, "sorted records", sub)
        all_equal(idxres, viol, "records designated by the sort index", sub)
    elif sub == "stat":
        lines = c19.synth(rng, nrec, collections.Counter())
        lines.append("readP\t10\t0\t10\t+\t>s1\t10\t0\t10\t10\t10\t60\ttp:A:P\tcg:Z:10=")
        lines = align_to_64k(text_variant(lines, rng, sit), rng, sit)
        cfgs = write_configs(casedir, lines, None, rng, sit)
        res = []
        for label, gaf, _ in cfgs:
            out = gaf + ".stat"
            o = run_cli(["stat", gaf, "--cigar", "-o", out])
            evals += 1
            res.append((label, read_text(out) if o.ok else f"<{o.brief()}>"))
        all_equal(res, viol, "stat report", sub)
    elif sub == "realign":
        from vf import realign_run as RR
        w = RR.make_workload(rng, casedir, min(nrec, 900), read_len=(20, 120))
        w.lines = align_to_64k(text_variant(w.lines, rng, sit, bom=False), rng, sit)
        cfgs = write_configs(casedir, w.lines, lambda p: w.g.write(p, rng=rng), rng, sit)
        res = []
        for label, gaf, gfa in cfgs:
            out = gaf + ".re"
            o = run_cli(["realign", gaf, gfa, w.fasta, "-o", out, "-c", str(rng.choice([1, 2]))])
            evals += 1
            res.append((label, read_text(out) if o.ok else f"<{o.brief()}>"))
        all_equal(res, viol, "realigned records", sub)
        if res[0][1].count("\n") != len(w.lines):
            viol.append({"kind": "record_count", "msg": f"realign wrote {res[0][1].count(chr(10))} lines for {len(w.lines)} records"})
    elif sub == "find_path":
        g = rgfa.gen_rgfa(rng, size="medium")
        succ = g.successors()
        paths = [rgfa.path_str(rgfa.random_walk(g, rng, 6, succ)) for _ in range(60)]
        pf = os.path.join(casedir, "paths.txt")
        with open(pf, "w") as f:
            f.write("\n".join(paths) + "\n")
        res = []
        for gz in (False, True):
            gfa = g.write(os.path.join(casedir, "g.gfa" + (".gz" if gz else "")), rng=rng)
            if gz:
                sit["gz_graph_configs"] += 1
                sit["gz_graph_" + getattr(g, "gz_members", "single") + "_member"] += 1
            out = gfa + ".fp"
            o = run_cli(["find_path", gfa, pf, "-o", out, "--fasta"])
            evals += 1
            res.append(("gz" if gz else "plain", read_text(out) if o.ok else f"<{o.brief()}>"))
        all_equal(res, viol, "path sequences", sub)
    elif sub == "order_gfa":
        g = OC.gen_graph(rng, n_chrom=rng.choice([1, 2, 3]), scaffolds=rng.randint(3, 30))
        order = [c["name"] for c in g.chroms]
        res = []
        for gz in (False, True):
            d = os.path.join(casedir, "gz" if gz else "pl")
            os.makedirs(d, exist_ok=True)
            gfa = g.write(os.path.join(d, "g.gfa" + (".gz" if gz else "")), rng=rng)
            if gz:
                sit["gz_graph_configs"] += 1
                sit["gz_graph_" + getattr(g, "gz_members", "single") + "_member"] += 1
            run = OC.run_order(gfa, os.path.join(d, "out"), order, True, True)
            evals += 1
            content = {}
            for fn, p in run.files.items():
                role = ("gfa:" if fn.endswith(".gfa") else "csv:") + fn.rsplit("-", 1)[-1].rsplit(".", 1)[0]
                content[role] = read_text(p)
            res.append(("gz" if gz else "plain", (run.outcome["kind"], content)))
        all_equal(res, viol, "ordered GFA / CSV files", sub)
    return {"sigs": [stable_hash([sub, index, ctx.seed, k]) for k in range(max(evals, 1))], "evals": max(evals, 1),
            "situations": dict(sit), "violations": viol, "sample": {"subcommand": sub, "records": nrec}}
