"""C19 — stat reports numbers that match their definitions.

Boundary oracle: the report printed by the real `gaftools stat [--cigar]` is parsed and every
figure named by the property is compared with the reference computed from the file by definition;
the report must be invariant under record permutation (integers exactly, rounded floats +-1 unit in
the last printed place). Contract on GAF.parse_gaf_line for is_primary.
"""

import collections
from fractions import Fraction
import os
import re

from vf import monitor as M
from vf.cli import run_cli
from vf.gen import gaf as ggaf
from vf.ref import gaf as rgaf
from vf.util import stable_hash, read_text

ID = "C19"
LEVEL = "exploration"
RULE = ("per case one synthetic GAF of 1-300 (thorough up to 3000) records, 1-6 records per read, "
        "tp:A:P / S / I or absent, MAPQ 0 / 1 / 60 / 255, random consistent CIGARs, plain or BGZF, "
        "reported by `stat` and `stat --cigar` in 2-3 record orders; an evaluation is one report; "
        "non-trivial = file with >= 1 secondary and >= 2 primary records and a read with >= 2 "
        "primary records; distinct by (record multiset, order, options)")
ASSUMPTIONS = ["files without any primary record are outside the domain (the averages are undefined)",
               "'Average mapping quality', the >=50 bp sub-counts and 'perfect alignments' are not named by the property and are only checked for order invariance",
               "tp:A values are P, S or I; read names without spaces",
               "the two best-ratio averages must print as the three-decimal number nearest to the exact rational average; only within 1e-10 of a middle between two printable numbers both are accepted (a sum of doubles cannot tell); between two orders of the same records a printed float may differ by one unit in the last place"]


def plan(tier):
    return {"cases": 1000 if tier == "quick" else 60000, "shards": 16,
            "shard_budget_s": 300 if tier == "quick" else 3300}


def required(tier):
    return ["post:parse_gaf_line", "reports_judged", "tpS_mapq_positive", "tp_absent", "mapq0_primary_tp",
            "multi_record_reads", "cigar_reports", "bgzf_input", "permuted_reports", "records_without_cigar"]


def post_parse_gaf_line(self, line, result):
    M.hit("post:parse_gaf_line")
    if result is None:
        return True
    text = line if isinstance(line, str) else line.decode()
    cols = text.rstrip("\n").split("\t")
    tp = [f[5:] for f in cols[12:] if f.startswith("tp:A:")]
    exp = not (tp and tp[0] != "P")
    if bool(result.is_primary) != exp:
        M.record("is_primary", f"parse_gaf_line: tp={tp[:1]} but is_primary={result.is_primary}", tp=tp[:1])
    return True


def setup(ctx):
    from gaftools import gaf
    M.attach(gaf.GAF, "parse_gaf_line", post=post_parse_gaf_line, optional=True)


def synth(rng, n, sit):
    names = [f"read{i}" for i in range(max(1, n // rng.choice([1, 2, 3, 6])))]
    lines = []
    described = rng.random() < 0.2  # GraphAligner style: "name description"; the read is the part before the blank
    for i in range(n):
        name = rng.choice(names)
        if described and rng.random() < 0.8:
            name += f" ch={rng.randint(1, 9)} start={rng.randint(0, 999)}"
        span = rng.randint(1, 400)
        cg, q, matches, block = ggaf.rand_cigar(rng, span)
        qs = rng.randint(0, 20)
        qlen = qs + q + rng.randint(0, 40)
        tp = rng.choice(["P", "P", "P", "S", "I", None])
        mapq = rng.choice([0, 1, 60, 60, 255])
        fields = []
        if tp:
            fields.append(f"tp:A:{tp}")
        fields += [f"NM:i:{rng.randint(0, 9)}"]
        if rng.random() < 0.8:  # minigraph without -c writes no cg:Z at all
            fields.append(f"cg:Z:{cg}")
        else:
            sit["records_without_cigar"] += 1
        if rng.random() < 0.3:
            fields.append(f"dv:f:0.{rng.randint(0, 999):03d}")
        rng.shuffle(fields)
        if rng.random() < 0.2:
            # a difference string next to the CIGAR (minimap2 / minigraph --cs): the same alignment at base level
            cs = "".join({"=": f":{n_}", "X": "*ag" * n_, "I": "+" + "a" * n_, "D": "-" + "c" * n_}[o_]
                         for n_, o_ in rgaf.cigar_ops(cg))
            fields.append(f"cs:Z:{cs}")
            sit["records_with_cs_tag"] += 1
        if tp in ("S", "I") and mapq > 0:
            sit["tpS_mapq_positive"] += 1
        if tp is None:
            sit["tp_absent"] += 1
        if tp == "P" and mapq == 0:
            sit["mapq0_primary_tp"] += 1
        if (tp in ("S", "I") or mapq == 0) and rng.random() < 0.08:
            # a record that is not counted anyway (secondary / MAPQ 0) with an empty alignment block or an
            # empty query: its ratios are never needed
            if rng.random() < 0.5:
                matches, block = 0, 0
            else:
                qlen, qs, q = 0, 0, 0
            sit["noncounted_record_with_zero_denominator"] += 1
        lines.append("\t".join([name, str(qlen), str(qs), str(qs + q), "+", ">s1>s2", str(span + 10), "3", str(3 + span),
                                str(matches), str(block), str(mapq)] + fields))
    return lines


def ref_stat(lines):
    recs = [rgaf.Rec(l) for l in lines]
    prim = []
    for r in recs:
        tp = r.tag("tp")
        secondary = (tp is not None and tp != "P") or r.mapq == 0
        if not secondary:
            prim.append(r)
    reads = collections.OrderedDict()
    for r in prim:
        d = reads.setdefault(r.qname.split(" ")[0], {"ident": Fraction(0), "ratio": Fraction(0), "n": 0})
        d["n"] += 1
        d["ident"] = max(d["ident"], Fraction(r.matches, r.block))  # exact: the printed figure is judged to the last digit
        d["ratio"] = max(d["ratio"], Fraction(r.qe - r.qs, r.qlen))
    runs = collections.Counter()
    for r in prim:
        for n, o in (rgaf.cigar_ops(r.cigar()) if r.cigar() else []):
            runs[o] += 1
    out = {"total": len(recs), "primary": len(prim), "secondary": len(recs) - len(prim),
           "reads": len(reads), "bases": sum(r.matches for r in prim)}
    if reads:
        out["ident"] = sum(d["ident"] for d in reads.values()) / len(reads)
        out["ratio"] = sum(d["ratio"] for d in reads.values()) / len(reads)
    out["runs"] = runs
    out["multi"] = sum(1 for d in reads.values() if d["n"] >= 2)
    return out


PATS = {
    "total": r"Total alignments: (\d+)", "primary": r"\tPrimary: (\d+)", "secondary": r"\tSecondary: (\d+)",
    "reads": r"Reads with at least one alignment: (\d+)", "bases": r"Total aligned bases: (\d+)",
    "mapq": r"Average mapping quality: ([\d.]+)", "ident": r"Average highest sequence identity: ([\d.eE+-]+)",
    "ratio": r"Average highest map ratio: ([\d.eE+-]+)",
    "del": r"Total deletion regions: (\d+) \((\d+) >50bps\)", "ins": r"Total insertion regions: (\d+) \((\d+) >50bps\)",
    "sub": r"Total substitution regions: (\d+) \((\d+) >50bps\)", "match": r"Total match regions: (\d+) \((\d+) >50bps\)",
    "perfect": r"Total perfect alignments \(exact match\): (\d+)",
}


def parse_report(text):
    out = {}
    for k, p in PATS.items():
        m = re.search(p, text)
        if m:
            out[k] = m.groups() if len(m.groups()) > 1 else m.group(1)
    return out


def close(a, b, places=3):
    """the figure is printed with `places` decimals: it must be the decimal nearest to the exact value b
    (a Fraction); only when b lies within 1e-10 of the middle between two printable values - closer than
    a sum of a few thousand doubles can tell - both neighbours are accepted"""
    scale = 10 ** places
    x = Fraction(b) * scale
    lo = x.numerator // x.denominator
    frac = x - lo
    if abs(frac - Fraction(1, 2)) < Fraction(scale, 10 ** 10):
        cands = [Fraction(lo, scale), Fraction(lo + 1, scale)]
    else:
        cands = [Fraction(lo + (1 if frac > Fraction(1, 2) else 0), scale)]
    try:
        v = float(a)
    except ValueError:
        return False
    return any(abs(v - float(c)) < 1e-9 for c in cands)


# pairs (a1, b1, a2, b2) whose mean (a1/b1 + a2/b2) / 2 lies between 1e-10 and 8e-10 above (first row) or
# below (second row) a printable middle x.xxx5 (found by an offline search over ~10**8 random pairs): a
# figure computed with a bias of a billionth prints another last digit for them
NEAR_MIDDLE = [(3397, 6329, 17930, 20050), (20739, 26893, 14362, 26026), (11946, 20131, 10747, 21426), (9515, 16914, 3825, 4939),
               (3925, 5045, 6981, 9078), (2552, 3861, 20892, 28462), (4143, 5474, 23527, 29257), (12537, 15245, 1460, 1462),
               (12404, 18515, 6248, 6965), (5597, 8479, 10887, 15144), (14822, 23724, 3969, 6936), (20075, 24477, 8171, 14997),
               (15627, 25101, 8311, 11968), (12589, 16960, 9841, 17123), (2168, 4258, 15979, 18627), (16061, 26018, 897, 969),
               (19564, 20764, 12798, 25353), (5435, 6495, 26645, 29082), (16137, 23963, 26201, 29653), (2719, 3274, 7614, 10282),
               (18726, 19630, 15934, 20092), (24445, 24763, 13034, 14078), (20167, 26904, 9684, 12393), (9900, 17223, 12565, 22430)]


def near_middle_file(rng, index):
    """two counted reads (plus records that are not counted) whose best map ratios and best identities
    average to just beside a printable middle"""
    r1 = NEAR_MIDDLE[rng.randrange(len(NEAR_MIDDLE))]
    r2 = NEAR_MIDDLE[rng.randrange(len(NEAR_MIDDLE))]
    lines = []
    for k, ((span, qlen), (m, blk)) in enumerate(zip((r1[:2], r1[2:]), (r2[:2], r2[2:]))):
        qs = rng.randint(0, qlen - span)
        lines.append("\t".join([f"nm{index}_{k}", str(qlen), str(qs), str(qs + span), "+", ">s1", str(blk + 50), "0", str(blk), str(m), str(blk), "60", "tp:A:P"]))
    # a worse second alignment of the first read, a secondary one and a mapq-0 one: none of them changes the figures
    lines.append("\t".join([f"nm{index}_0", str(r1[1]), "0", str(max(1, r1[0] // 3)), "+", ">s2", "900", "0", "800", "100", "800", "60", "tp:A:P"]))
    lines.append("\t".join([f"nm{index}_2", "100", "0", "100", "+", ">s2", "100", "0", "100", "100", "100", "60", "tp:A:S"]))
    lines.append("\t".join([f"nm{index}_3", "100", "0", "100", "+", ">s2", "100", "0", "100", "100", "100", "0", "tp:A:P"]))
    rng.shuffle(lines)
    return lines


def run_case(ctx, rng, index, casedir):
    sit = collections.Counter()
    viol = []
    hi = 300 if ctx.tier == "quick" else rng.choice([300, 3000])
    n = rng.choice([1, 2, 5, rng.randint(6, 60), rng.randint(60, hi)])
    lines = None
    if index % 20 == 7:
        lines = near_middle_file(rng, index)
        sit["averages_beside_a_printable_middle"] += 1
    for _ in range(20 if lines is None else 0):
        lines = synth(rng, n, collections.Counter())
        if ref_stat(lines)["primary"] >= 1:
            break
    else:
        if index % 20 != 7:
            lines = lines + ["readP\t10\t0\t10\t+\t>s1\t10\t0\t10\t10\t10\t60\ttp:A:P\tcg:Z:10="]
    # recount situations on the final file
    for l in lines:
        r = rgaf.Rec(l)
        tp = r.tag("tp")
        if r.cigar() is None:
            sit["records_without_cigar"] += 1
        if tp in ("S", "I") and r.mapq > 0:
            sit["tpS_mapq_positive"] += 1
        if tp is None:
            sit["tp_absent"] += 1
        if tp == "P" and r.mapq == 0:
            sit["mapq0_primary_tp"] += 1
    exp = ref_stat(lines)
    if exp["multi"]:
        sit["multi_record_reads"] += 1
    mode = rng.choice(["plain", "plain", "bgzf", "pysam"])
    if mode != "plain":
        sit["bgzf_input"] += 1
    reports = []
    orders = [list(range(len(lines)))]
    for _ in range(rng.choice([1, 2])):
        o = list(range(len(lines)))
        rng.shuffle(o)
        orders.append(o)
    cigar = rng.random() < 0.6
    sigs = []
    for k, order in enumerate(orders):
        gaf = os.path.join(casedir, f"in{k}.gaf" + ("" if mode == "plain" else ".gz"))
        ggaf.write_gaf(gaf, [lines[i] for i in order], mode=mode, rng=rng, layout=rng.choice(["standard", "tiny"]))
        out = os.path.join(casedir, f"rep{k}.txt")
        if rng.random() < 0.25:  # default output: stdout
            o = run_cli(["stat", gaf] + (["--cigar"] if cigar else []))
            if o.ok:
                with open(out, "w") as f:
                    f.write(o.stdout)
            M.hit("stdout_reports")
        else:
            o = run_cli(["stat", gaf, "-o", out] + (["--cigar"] if cigar else []))
        M.hit("reports_judged")
        if k:
            M.hit("permuted_reports")
        if cigar:
            M.hit("cigar_reports")
        if not o.ok:
            viol.append({"kind": "stat_failed", "msg": f"stat: {o.brief()}", "witness": {"outcome": o.to_json()}})
            continue
        rep = parse_report(read_text(out))
        reports.append(rep)
        for key in ("total", "primary", "secondary", "reads", "bases"):
            if key not in rep or int(rep[key]) != exp[key]:
                viol.append({"kind": "figure_" + key, "msg": f"stat reports {key} = {rep.get(key)} but the definition gives {exp[key]} "
                                                             f"(total {exp['total']}, primary {exp['primary']}, secondary {exp['secondary']})",
                             "witness": {"figure": key, "reported": rep.get(key), "expected": exp[key]}})
        if "total" in rep and "primary" in rep and "secondary" in rep and int(rep["total"]) != int(rep["primary"]) + int(rep["secondary"]):
            viol.append({"kind": "total_not_sum", "msg": f"total {rep['total']} != primary {rep['primary']} + secondary {rep['secondary']}"})
        for key in ("ident", "ratio"):
            if key not in rep or not close(rep[key], exp[key]):
                viol.append({"kind": "figure_" + key, "msg": f"stat reports best {key} {rep.get(key)} but the definition gives {float(exp[key]):.12f}",
                             "witness": {"figure": key}})
        if cigar:
            for key, op in (("del", "D"), ("ins", "I"), ("sub", "X"), ("match", "=")):
                if key not in rep or int(rep[key][0]) != exp["runs"][op]:
                    viol.append({"kind": "figure_cigar_" + key, "msg": f"stat --cigar reports {rep.get(key)} {key} regions, the primary records have {exp['runs'][op]} runs of {op}"})
        if exp["secondary"] >= 1 and exp["primary"] >= 2 and exp["multi"]:
            sigs.append(stable_hash([sorted(lines), order, cigar]))
    for rep in reports[1:]:
        for key in rep:
            a, b = reports[0].get(key), rep[key]
            if key in ("ident", "ratio", "mapq"):
                if a is None or abs(float(a) - float(b)) > 1.5 * 10 ** (-(1 if key == "mapq" else 3)):
                    viol.append({"kind": "order_dependence", "msg": f"{key}: {a} vs {b} for two orders of the same records"})
            elif a != b:
                viol.append({"kind": "order_dependence", "msg": f"{key}: {a} vs {b} for two orders of the same records"})
    return {"sigs": sigs, "evals": len(orders), "situations": dict(sit), "violations": viol,
            "sample": {"records": len(lines), "expected": {k: (float(v) if isinstance(v, Fraction) else v) for k, v in exp.items() if k != "runs"}, "first": lines[0][:160]}}
