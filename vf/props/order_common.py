"""Shared by C06/C07/C18 (and C17): chain-graph workloads for `gaftools order_gfa`, running it
in-process or in a bootstrap subprocess with a chosen PYTHONHASHSEED, parsing its outputs with the
independent GFA reader, and the reference classification / BO-NO judgement of a component."""

import collections
import glob
import os

from vf import boot
from vf.cli import run_cli
from vf.gen import chain
from vf.ref import gfa as rg


def gen_graph(rng, defects=None, n_chrom=None, id_style=None, scaffolds=None, kinds=None, end_style=None, names=None, singletons=0,
              contig_major=0.0):
    """chain graph whose chromosome components are named (majority SN vote) by their rank-0 contig -
    or, with contig_major, now and then by an assembly contig that outnumbers the reference there"""
    for _ in range(50):
        g = chain.gen_chain_rgfa(rng, n_chrom=n_chrom, id_style=id_style, defects=defects, contig_major=contig_major,
                                 scaffolds=scaffolds, kinds=kinds, end_style=end_style, names=names, singletons=singletons)
        ok = True
        for c in g.chroms:
            cnt = collections.Counter(g.nodes[n].contig for n in c["nodes"])
            top = cnt.most_common(2)
            if top[0][0] != c["name"] or (len(top) > 1 and top[1][1] >= top[0][1] - 1 and len(c["nodes"]) > 1):
                ok = False
        if ok:
            return g
    if kinds != ["snp", "ins", "del", "bridge"]:
        # fall back to bubble kinds with at most one haplotype node per bubble (always a clear majority)
        return gen_graph(rng, defects=defects, n_chrom=n_chrom, id_style=id_style, scaffolds=max(2, scaffolds or 2),
                         kinds=["snp", "ins", "del", "bridge"], end_style="leaf", names=names, singletons=singletons)
    raise RuntimeError("could not generate a graph with a clear SN majority per component")


def components_of(g):
    """connected components of the generated graph, named by their chromosome"""
    adj = {n: set() for n in g.nodes}
    for a, _oa, b, _ob, _ov, _t in g.links:
        if a != b:
            adj[a].add(b)
            adj[b].add(a)
    from vf.ref import bcc
    comps = bcc.components(adj)
    named = {}
    for comp in comps:
        cnt = collections.Counter(g.nodes[n].contig for n in comp)
        named[cnt.most_common(1)[0][0]] = comp
    return named


BAD_ID_CHARS = set(" \t><,")


def classify(g, comp, name):
    # the reference contig of the component: its name, unless an assembly contig outnumbers the
    # reference there (then the rank-0 contig with the most segments in it)
    if not any(g.nodes[n].rank == 0 and g.nodes[n].contig == name for n in comp):
        cnt = collections.Counter(g.nodes[n].contig for n in comp if g.nodes[n].rank == 0)
        if cnt:
            name = cnt.most_common(1)[0][0]
    ro = chain.reference_order(g, comp, name)
    info = {"ro": ro, "in_domain": ro["chain"] is not None, "reason": ro["reason"], "n_artic": len(ro["artic"])}
    if any(BAD_ID_CHARS & set(n) for n in comp):
        info["in_domain"] = False
        info["reason"] = "node id with reserved character"
    return info


def argv_for(gfa, outdir, order, by_chrom, with_seq):
    a = ["order_gfa", "--outdir", outdir]
    if order is not None:  # None: rely on the documented default order chr1..chr22,chrX,chrY,chrM
        a += ["--chromosome_order", ",".join(order)]
    if by_chrom:
        a.append("--by-chrom")
    if with_seq:
        a.append("--with-sequence")
    return a + [gfa]


def stable_hash_int(x):
    import hashlib
    return int(hashlib.sha1(x.encode()).hexdigest()[:8], 16)


class OrderRun:
    def __init__(self):
        self.outcome = None
        self.files = {}
        self.violations = []
        self.counts = {}


def run_order(gfa, outdir, order, by_chrom, with_seq, hashseed=None, casedir=None, prop=None, tag="boot", squat=()):
    # order_gfa creates a missing output directory itself (also nested): leave that to it every other time
    if squat:
        # something that is not a file sits where a component that will be skipped would have been
        # written (nothing is ever supposed to be written there)
        os.makedirs(outdir, exist_ok=True)
        base = os.path.basename(gfa)
        for c in squat:
            os.makedirs(os.path.join(outdir, base.split(".")[0] + "-" + c + ".gfa"), exist_ok=True)
            os.makedirs(os.path.join(outdir, base[:-4] + "-" + c + ".csv"), exist_ok=True)
    if squat or stable_hash_int(outdir) % 2 == 0:
        os.makedirs(outdir, exist_ok=True)
        if stable_hash_int(outdir) % 4 == 0 and not by_chrom:
            # a re-used output directory: the combined files of an earlier run are already there
            base = os.path.basename(gfa).split(".")[0]
            with open(os.path.join(outdir, base + "-complete.csv"), "w") as f:
                f.write("Name,Color,SN,SO,BO,NO\nzz,blue,chrStale,0,0,0\n")
            with open(os.path.join(outdir, base + "-complete.gfa"), "w") as f:
                f.write("S\tzz\tA\tLN:i:1\tSN:Z:chrStale\tSO:i:0\tSR:i:0\tBO:i:0\tNO:i:0\n")
    else:
        outdir = os.path.join(outdir, "new", "dir")
    r = OrderRun()
    argv = argv_for(gfa, outdir, order, by_chrom, with_seq)
    r.argv = argv
    if hashseed is None:
        o = run_cli(argv)
        r.outcome = o.to_json()
        r.warnings = [m for lv, m in o.log if lv in ("WARNING", "ERROR", "CRITICAL")]
        r.tb = o.tb
    else:
        res = boot.run_boot({"argv": argv, "prop": prop}, casedir, hashseed, tag=tag)
        r.outcome = res["outcome"]
        r.warnings = [m for lv, m in res.get("log", []) if lv in ("WARNING", "ERROR", "CRITICAL")]
        r.violations = res.get("violations", [])
        r.counts = res.get("counts", {})
        r.tb = res.get("tb", "")
    for p in sorted(glob.glob(os.path.join(outdir, "*"))):
        if os.path.isfile(p):
            r.files[os.path.basename(p)] = p
    return r


def parse_gfa_outputs(run):
    """{suffix after the first '-': RefGFA} for every *.gfa written"""
    out = {}
    for fn, p in run.files.items():
        if fn.endswith(".gfa"):
            out[fn.rsplit("-", 1)[1][:-4] if "-" in fn else fn] = (rg.read(p), open(p).read())
    return out


def parse_csv_outputs(run):
    out = {}
    for fn, p in run.files.items():
        if fn.endswith(".csv"):
            rows = [l.rstrip("\n").split(",") for l in open(p)]
            out[fn.rsplit("-", 1)[1][:-4] if "-" in fn else fn] = rows
    return out


def bo_no_of(rgfa_obj):
    tags = {}
    for sid in rgfa_obj.segments:
        bo, no = rgfa_obj.tag(sid, "BO"), rgfa_obj.tag(sid, "NO")
        tags[sid] = (None if bo is None else int(bo), None if no is None else int(no))
    return tags


def judge_bo_no(info, tags, comp):
    """Judge the BO/NO assignment of one in-domain component against the reference chain.
    Returns list of (kind, msg)."""
    ro = info["ro"]
    out = []
    missing = [n for n in comp if n not in tags or tags[n][0] is None or tags[n][1] is None]
    if missing:
        return [("missing_tags", f"nodes without BO/NO: {sorted(missing)[:6]}")]

    def check(elements):
        errs = []
        prev = None
        for t, x in elements:
            if t == "s":
                bo, no = tags[x]
                if no != 0:
                    errs.append(("scaffold_no", f"scaffold node {x} has NO {no}"))
                cur = bo
            else:
                bos = {tags[n][0] for n in x}
                if len(bos) != 1:
                    errs.append(("bubble_bo", f"bubble {sorted(x)[:5]} has several BO values {sorted(bos)}"))
                    cur = min(bos)
                else:
                    cur = next(iter(bos))
                nos = [tags[n][1] for n in sorted(x)]
                if nos != list(range(1, len(x) + 1)):
                    errs.append(("bubble_no", f"bubble {sorted(x)[:6]} numbered {nos[:6]} (expected 1..{len(x)} in lexicographic id order)"))
            if prev is not None and not cur > prev:
                errs.append(("bo_not_increasing", f"BO does not strictly increase along the reference: {prev} then {cur} at {x if t == 's' else sorted(x)[:3]}"))
            prev = cur
        return errs

    errs = check(ro["chain"])
    if errs and ro["orient"] is None:
        errs2 = check(ro["chain"][::-1])
        if not errs2:
            return []
    return errs
