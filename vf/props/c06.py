"""C06 — order_gfa assigns BO/NO tags that encode the bubble chain.

Boundary oracle: the S-line BO/NO tags written by the real `gaftools order_gfa` are judged against
the independent block-cut chain (ref.bcc): BO strictly increasing along the chain in increasing
reference offset, scaffold (articulation point) NO = 0, bubble nodes share one BO and are numbered
1..M in lexicographic id order, chromosomes get disjoint BO ranges in --chromosome_order.
Metamorphic relations over real runs: permuted S/L lines, an input already carrying BO/NO, other
PYTHONHASHSEED values (bootstrap subprocesses).  Probe: the `traversal.reverse()` branch.
"""

import collections
import itertools
import os

from vf import monitor as M
from vf.props import order_common as OC
from vf.util import stable_hash, REPO

ID = "C06"
LEVEL = "exploration"
RULE = ("per case one generated multi-chromosome chain rGFA (1-4 chromosomes, 1-60 scaffold nodes "
        "(thorough up to 400), SNP / insertion / deletion / inversion / multi-segment / "
        "multi-allelic / nested bubbles, both id styles), a random --chromosome_order, --by-chrom "
        "on/off; re-run with permuted lines, on its own output, and under 1-3 other hash seeds; "
        "thorough adds the shipped chr1 graph; an evaluation is one chromosome component judged in one order_gfa run; non-trivial = "
        "component with >= 2 chain elements; distinct by (graph signature, order, options)")
ASSUMPTIONS = ["domain (checked per component by the reference decomposition, not assumed): block-cut tree is a path with >= 1 articulation point, "
               "all articulation points are rank-0 nodes of one contig, ids without whitespace and > < ,",
               "orientation = ascending SO of scaffold nodes; with < 2 scaffold nodes ascending min SO of the rank-0 nodes in the end bubbles; "
               "if neither decides both directions are accepted", "any strictly increasing BO sequence is accepted (not only +1 steps)"]
REQUIRED_PROBES = ()  # traversal_reversed is a coverage counter tied to a source line; see runner.required_missing


def plan(tier):
    return {"cases": 256 if tier == "quick" else 9600, "shards": 16,
            "shard_budget_s": 400 if tier == "quick" else 3300, "watchdog_s": 900 if tier == "quick" else 4500}


def required(tier):
    return ["components_judged", "ap_class:1", "ap_class:2", "ap_class:3-10", "ap_class:>10",
            "traversal_reversed", "hashseed_runs", "permuted_line_runs", "reorder_own_output_runs",
            "multi_chromosome_runs", "post:biccs", "default_chromosome_order_runs"]


def setup(ctx):
    from gaftools.cli import order_gfa
    from gaftools import gfa
    from vf.props import c15
    M.attach(gfa.GFA, "biccs", post=c15.post_biccs)
    if hasattr(order_gfa, "decompose_and_order"):
        M.PROBES.count_text(order_gfa.decompose_and_order, "traversal.reverse()", "traversal_reversed")
    else:
        M.PROBES.status["traversal_reversed"] = "unattached"


def judge_run(g, run, order, by_chrom, named, infos, viol, sit, who):
    """returns {chrom: tags} for the chromosomes written"""
    if run.outcome["kind"] != "ok":
        viol.append({"kind": "order_failed", "msg": f"{who}: order_gfa on chain-shaped input: {run.outcome}",
                     "witness": {"outcome": run.outcome, "id_style_numeric": all(n.isdigit() for n in g.nodes), "tb": run.tb[-500:],
                                 "n_artic": {c: infos[c]["n_artic"] for c in order}}})
        return None
    gf = OC.parse_gfa_outputs(run)
    per_chrom = {}
    if by_chrom:
        for c in order:
            if c in gf:
                per_chrom[c] = OC.bo_no_of(gf[c][0])
    else:
        if "complete" in gf:
            alltags = OC.bo_no_of(gf["complete"][0])
            for c in order:
                per_chrom[c] = {n: alltags[n] for n in named[c] if n in alltags}
    prev_max = None
    for c in order:
        info = infos[c]
        if not info["in_domain"]:
            t1 = per_chrom.get(c)
            if info["reason"] == "single_node" and t1 and len(t1) == 1:
                # a chromosome of one segment (chrM-like) has no chain to encode, but it takes part in
                # "chromosomes receive disjoint BO ranges in the requested chromosome order"
                (bo1, no1), = t1.values()
                sit["single_segment_chromosomes"] += 1
                if bo1 is not None:
                    if prev_max is not None and bo1 <= prev_max:
                        viol.append({"kind": "chromosome_ranges", "msg": f"{who}: single-segment chromosome {c} has BO {bo1} but the previous chromosome reached {prev_max}"})
                    prev_max = bo1
            else:
                sit["out_of_domain"] += 1
            continue
        tags = per_chrom.get(c)
        if not tags:
            viol.append({"kind": "chain_component_not_written", "msg": f"{who}: chain-shaped chromosome {c} ({info['n_artic']} articulation points) got no output",
                         "witness": {"n_artic": info["n_artic"], "id_style_numeric": all(n.isdigit() for n in named[c]),
                                     "warnings": run.warnings[:3]}})
            continue
        M.hit("components_judged")
        na = info["n_artic"]
        sit["ap_class:" + ("1" if na == 1 else "2" if na == 2 else "3-10" if na <= 10 else ">10")] += 1
        for kind, msg in OC.judge_bo_no(info, tags, named[c]):
            viol.append({"kind": kind, "msg": f"{who}: {c}: {msg}", "witness": {"n_artic": na, "chrom": c,
                         "orient_rule_decides": info["ro"]["orient"] is not None}})
        bos = [b for b, _n in tags.values() if b is not None]
        if bos:
            if prev_max is not None and min(bos) <= prev_max:
                viol.append({"kind": "chromosome_ranges", "msg": f"{who}: BO range of {c} starts at {min(bos)} but the previous chromosome reached {prev_max}"})
            prev_max = max(bos)
    return per_chrom


def run_case(ctx, rng, index, casedir):
    sit = collections.Counter()
    viol = []
    if ctx.tier == "thorough" and index == 0:
        return chr1_case(ctx, casedir, sit, viol)
    big = ctx.tier == "thorough" and rng.random() < 0.05
    scaff = rng.choice([1, 1, 2, 2, 3, rng.randint(3, 10), rng.randint(11, 60)])
    if big:
        scaff = rng.randint(100, 400)
    default_mode = (index % 13 == 3)  # no --chromosome_order: the documented default order applies
    if default_mode:
        from gaftools.cli.order_gfa import DEFAULT_CHROMOSOME
        dn = list(DEFAULT_CHROMOSOME)
        g = OC.gen_graph(rng, names=dn, scaffolds=rng.choice([2, 3]), id_style=rng.choice(["s", "name"]),
                         kinds=["snp", "ins", "del", "bridge", "refmulti", "inv"], end_style="leaf")
        sit["default_chromosome_order_runs"] += 1
    else:
        g = OC.gen_graph(rng, n_chrom=rng.choice([1, 2, 3, 4]) if not big else 1, scaffolds=scaff,
                         id_style=rng.choice(["s", "s", "name", "num"]), singletons=rng.choice([0, 0, 0, 1, 2]) if not big else 0,
                         contig_major=0.12 if not big else 0.0)
        sit["chromosomes_named_after_an_assembly_contig"] += sum(1 for c in g.chroms if "ref" in c)
    gpath = os.path.join(casedir, "in.gfa" + (".gz" if rng.random() < 0.15 else ""))
    g.write(gpath, rng=rng, shuffle=rng.random() < 0.3)
    named = OC.components_of(g)
    names = [c["name"] for c in g.chroms]
    if sorted(named) != sorted(names):
        raise RuntimeError("generator: component naming differs from intent")
    infos = {c: OC.classify(g, named[c], c) for c in names}
    order = list(names)
    rng.shuffle(order)
    if default_mode:
        order = dn
    by_chrom = rng.random() < 0.5
    with_seq = rng.random() < 0.3
    if len(order) > 1:
        sit["multi_chromosome_runs"] += 1
    runs = 0
    req = None if default_mode else order
    base = OC.run_order(gpath, os.path.join(casedir, "o0"), req, by_chrom, with_seq)
    runs += 1
    t0 = judge_run(g, base, order, by_chrom, named, infos, viol, sit, "base")
    wit_common = {"order": order, "by_chrom": by_chrom, "n_artic": {c: infos[c]["n_artic"] for c in order}}

    def same(t1, who):
        if t0 is None or t1 is None:
            return
        for c in order:
            if infos[c]["in_domain"] and t0.get(c) != t1.get(c):
                diff = [n for n in t0.get(c, {}) if (t1.get(c) or {}).get(n) != t0[c][n]][:5]
                viol.append({"kind": "assignment_depends_on_" + who, "msg": f"{c}: BO/NO assignment differs under {who}: nodes {diff}",
                             "witness": dict(wit_common, chrom=c, n_artic_chrom=infos[c]["n_artic"])})

    # permuted S/L lines
    p1 = os.path.join(casedir, "perm.gfa")
    g.write(p1, rng=rng, shuffle=True, interleave=rng.random() < 0.5)
    r1 = OC.run_order(p1, os.path.join(casedir, "o1"), req, by_chrom, with_seq)
    runs += 1
    M.hit("permuted_line_runs")
    same(judge_run(g, r1, order, by_chrom, named, infos, viol, sit, "permuted lines"), "line_order")
    # an input that already carries BO/NO tags from an earlier run (here: scrambled stale values)
    stale = {n: (rng.randint(0, 99), rng.randint(0, 9)) for n in g.nodes}
    p2 = os.path.join(casedir, "stale.gfa")
    g.write(p2, rng=rng, shuffle=False, bo_no=stale)
    r2 = OC.run_order(p2, os.path.join(casedir, "o2"), req, by_chrom, with_seq)
    runs += 1
    M.hit("reorder_own_output_runs")
    same(judge_run(g, r2, order, by_chrom, named, infos, viol, sit, "input with stale BO/NO"), "stale_tags")
    # other hash seeds (real process boundary)
    nh = 1 if ctx.tier == "quick" else rng.choice([1, 2, 3])
    for k in range(nh):
        hs = rng.choice([0, 1, 2, 3, rng.randint(4, 2 ** 31)])
        rh = OC.run_order(gpath, os.path.join(casedir, f"oh{k}"), req, by_chrom, with_seq, hashseed=hs,
                          casedir=casedir, prop=None, tag=f"h{k}")
        runs += 1
        M.hit("hashseed_runs")
        if rh.outcome["kind"] in ("boot_failed", "boot_timeout"):
            raise RuntimeError(f"bootstrap subprocess failed: {rh.outcome}")
        same(judge_run(g, rh, order, by_chrom, named, infos, viol, sit, f"PYTHONHASHSEED={hs}"), "hash_seed")
    sigs = []
    gsig = stable_hash(g.signature())
    for c in order:
        if infos[c]["in_domain"] and len(infos[c]["ro"]["chain"]) >= 2:
            sigs.append(stable_hash([gsig, c, order, by_chrom]))
    # an evaluation = one chromosome component judged in one order_gfa run
    return {"sigs": sigs, "evals": runs * len(order), "situations": dict(sit), "violations": viol,
            "sample": {"chromosomes": order, "by_chrom": by_chrom, "nodes": len(g.nodes),
                       "articulation_points": {c: infos[c]["n_artic"] for c in order},
                       "first_chain": [(t, x if t == "s" else sorted(x)) for t, x in (infos[order[0]]["ro"]["chain"] or [])[:6]]}}


def chr1_case(ctx, casedir, sit, viol):
    """the real 90k-node chr1 graph shipped in tests/data: re-ordering reproduces a valid chain"""
    from vf.ref import gfa as rg
    src = os.path.join(REPO, "tests/data/large-graph-chr1.gfa.gz")
    run = OC.run_order(src, os.path.join(casedir, "chr1"), ["chr1"], True, False)
    if run.outcome["kind"] != "ok":
        viol.append({"kind": "order_failed", "msg": f"chr1 graph: {run.outcome}"})
        return {"sig": "chr1", "nontrivial": True, "situations": dict(sit), "violations": viol}
    gf = OC.parse_gfa_outputs(run)
    out = gf["chr1"][0]
    tags = OC.bo_no_of(out)
    # build a light Graph-like view for the reference decomposition
    from vf.gen.rgfa import Graph
    g = Graph()
    for sid, (seq, _t) in out.segments.items():
        g.add_node(sid, out.tag(sid, "SN"), int(out.tag(sid, "SO")), "N" * int(out.tag(sid, "LN")), int(out.tag(sid, "SR")))
    for a, oa, b, ob, ov, t in out.links:
        g.links.append([a, oa, b, ob, 0, t])
    comp = set(g.nodes)
    info = OC.classify(g, comp, "chr1")
    if not info["in_domain"]:
        raise RuntimeError(f"chr1 graph classified out of domain: {info['reason']}")
    M.hit("components_judged")
    sit["ap_class:>10"] += 1
    sit["chr1_graph_nodes"] += len(comp)
    for kind, msg in OC.judge_bo_no(info, tags, comp):
        viol.append({"kind": kind, "msg": f"chr1 graph: {msg}"})
    return {"sig": "chr1", "nontrivial": True, "evals": 1, "situations": dict(sit), "violations": viol,
            "sample": {"graph": "tests/data/large-graph-chr1.gfa.gz", "nodes": len(comp), "articulation_points": info["n_artic"]}}
