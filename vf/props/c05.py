"""C05 — view --region returns exactly the records of the nodes under the region.

Boundary outcome classification of real `gaftools view GAF -r CONTIG:a-b ...` runs against the
--node oracle applied to the nodes whose stable interval intersects the region(s); a logical
step-budget probe on view.search decides non-termination without a wall clock.
No-false-alarm rule: the syntax does not say whether b is inclusive, so a node [s,e) MUST be
selected if it intersects the half-open [a,b) (or contains a when a=b) and MAY be selected if it
merely intersects the closed [a,b]; any node set between the two is accepted.
"""

import collections
import itertools
import os

from vf import monitor as M
from vf.cli import run_cli, NonTermination
from vf.props import view_common as VC
from vf.util import stable_hash, read_text
from vf.ref import gaf as rgaf

ID = "C05"
LEVEL = "exploration"
RULE = ("per case one indexed GAF and 8-16 region queries (1-4 regions each) over every contig of "
        "the graph (reference and haplotype), 0 <= a <= b < contig extent: inside one node, "
        "spanning 2-10 nodes, boundaries exactly on node boundaries, over unaligned prefix / suffix "
        "/ gaps between indexed nodes, gaps of haplotype contigs, contigs with a single indexed "
        "node; an evaluation is one query; non-trivial = query with a region spanning >= 2 nodes "
        "or touching an unaligned node or gap; distinct by (GAF text, region list)")
ASSUMPTIONS = ["region end inclusiveness is undefined by the syntax: both readings are accepted (differ by at most the node starting exactly at b)",
               "safe-class optional fields and always a cg:Z field",
               "non-termination is decided on a logical step budget of 64 + 16*len(node list) executed lines in view.search"]


def plan(tier):
    return {"cases": 1000 if tier == "quick" else 60000, "shards": 16,
            "shard_budget_s": 300 if tier == "quick" else 3300}


def required(tier):
    return ["q:inside_one_node", "q:multi_node_span", "q:on_boundaries", "q:unaligned_prefix",
            "q:unaligned_suffix", "q:gap_between_indexed", "q:haplotype_contig", "q:multi_region",
            "q:single_indexed_node_contig", "q:nothing_expected", "search_step_probe_events",
            "selection_gt_1000_records", "twin_region_queries", "twin:ends_on_node_start"]


REQUIRED_PROBES = ("search_step_budget",)
_steps = {}


def _budget_cb(frame):
    M.COUNTS["search_step_probe_events"] += 1
    k = id(frame)
    n = _steps.get(k, 0) + 1
    _steps[k] = n
    nl = frame.f_locals.get("node_list")
    if frame.f_code.co_name == "search" and nl is not None:
        budget = 64 + 16 * len(nl)  # the region search: a small multiple of the list it searches
    else:
        budget = 3_000_000  # any other function of the view module, per call (inputs here have <= 2600 records)
    if n > budget:
        _steps.clear()
        raise NonTermination(f"view.{frame.f_code.co_name} executed more than {budget} lines in one call"
                             + (f" for a node list of {len(nl)}" if nl is not None else ""))


def _reset_cb(frame):
    # frame ids are reused between calls: the step counter of a call starts at function entry
    _steps[id(frame)] = 0


def setup(ctx):
    import types
    from gaftools.cli import view
    # step budget per call on every function defined in the view module (whatever its helpers are called)
    funcs = [f for f in vars(view).values() if isinstance(f, types.FunctionType) and f.__module__ == view.__name__]
    if not funcs:
        M.PROBES.status["search_step_budget"] = "unattached"
    for f in funcs:
        M.PROBES.every_line(f, _budget_cb, "search_step_budget", on_start=_reset_cb)
    M.COUNTS["step_budget_functions"] += len(funcs)


def node_sets(w, contig, a, b):
    must, may = set(), set()
    for nd in w.coords.by_contig.get(contig, ()):
        s, e = nd.so, nd.end
        if (s < b and e > a) or (a == b and s <= a < e):
            must.add(nd.id)
        if s <= b and e > a:
            may.add(nd.id)
    return must, may


def make_regions(w, rng, sit):
    """returns list of (class, [region strings])"""
    g = w.g
    out = []
    contigs = list(w.coords.by_contig)
    indexed_by_contig = collections.defaultdict(list)
    for nid in w.aligned:
        indexed_by_contig[g.nodes[nid].contig].append(g.nodes[nid])
    for v in indexed_by_contig.values():
        v.sort(key=lambda n: n.so)

    def reg(c, a, b):
        return f"{c}:{a}-{b}"

    def extent(c):
        return max(n.end for n in w.coords.by_contig[c])

    for _ in range(rng.randint(8, 16)):
        c = rng.choice(contigs)
        segs = w.coords.by_contig[c]
        idx = indexed_by_contig.get(c, [])
        ext = extent(c)
        kind = rng.choice(["inside_one_node", "multi_node_span", "on_boundaries", "unaligned_prefix",
                           "unaligned_suffix", "gap_between_indexed", "random", "random"])
        a = b = None
        if kind == "inside_one_node":
            nd = rng.choice(segs)
            a = rng.randint(nd.so, nd.end - 1)
            b = rng.randint(a, nd.end - 1)
        elif kind == "multi_node_span" and len(segs) >= 2:
            i = rng.randrange(len(segs) - 1)
            j = min(len(segs) - 1, i + rng.randint(1, 9))
            a = rng.randint(segs[i].so, segs[i].end - 1)
            b = rng.randint(segs[j].so, segs[j].end - 1)
        elif kind == "on_boundaries":
            i = rng.randrange(len(segs))
            j = min(len(segs) - 1, i + rng.randint(0, 3))
            a = rng.choice([segs[i].so, segs[i].end - 1])
            b = rng.choice([segs[j].so, segs[j].end - 1, min(segs[j].end, ext - 1)])
            if b < a:
                a, b = b, a
        elif kind == "unaligned_prefix" and idx and idx[0].so > 0:
            a = rng.randint(0, idx[0].so - 1)
            b = rng.randint(a, min(ext - 1, idx[0].so + rng.randint(-1, 3)))
            b = max(a, b)
        elif kind == "unaligned_suffix" and idx and idx[-1].end < ext:
            a = rng.randint(max(0, idx[-1].end - rng.randint(0, 3)), ext - 1)
            b = rng.randint(a, ext - 1)
        elif kind == "gap_between_indexed" and len(idx) >= 2:
            gaps = [(x.end, y.so) for x, y in zip(idx, idx[1:]) if y.so > x.end]
            if gaps:
                ga, gb = rng.choice(gaps)
                a = rng.randint(ga, gb - 1)
                b = rng.randint(a, gb - 1)
        if a is None:
            kind = "random"
            a = rng.randint(0, ext - 1)
            b = rng.randint(a, min(ext - 1, a + rng.choice([0, 1, 5, 30, ext])))
        regions = [(c, a, b)]
        classes = [kind]
        if rng.random() < 0.3:
            for _k in range(rng.randint(1, 3)):
                c2 = rng.choice(contigs)
                e2 = extent(c2)
                a2 = rng.randint(0, e2 - 1)
                b2 = rng.randint(a2, min(e2 - 1, a2 + rng.choice([0, 3, 40])))
                regions.append((c2, a2, b2))
            classes.append("multi_region")
        for (cc, _a, _b) in regions:
            if g.contigs[cc] != 0:
                classes.append("haplotype_contig")
            if len(indexed_by_contig.get(cc, [])) == 1:
                classes.append("single_indexed_node_contig")
        out.append((classes, regions))
    return out


def run_case(ctx, rng, index, casedir):
    sit = collections.Counter()
    viol = []
    outcomes = collections.Counter()
    big_case = rng.random() < 0.02  # regions selecting well over a thousand records
    w = VC.build(rng, casedir, index, ctx.tier, nrec=rng.choice([1024, 2048, 4096, 8192, rng.randint(1300, 2600), rng.randint(1300, 2600)]) if big_case else rng.choice([1, 2, 4, rng.randint(5, 30)]),
                 offset_ref=rng.random() < 0.1, **({"size": "small"} if big_case else {}))
    if w.offset_ref:
        sit["graphs_whose_reference_does_not_start_at_0"] += 1
    o = VC.run_index(w, None if rng.random() < 0.7 else os.path.join(casedir, "elsewhere.gvi"))
    if not o.ok:
        return {"sig": None, "nontrivial": False, "situations": {"index_failed": 1}, "violations": [],
                "outcomes": {"index:" + o.kind: 1}}
    fmt_avail = "unstable" if w.stable else "stable"
    conv_lines = None
    conv_out = os.path.join(casedir, "whole_conv.gaf")
    if run_cli(["view", w.gaf, "-g", w.gfa, "-f", fmt_avail, "-o", conv_out]).ok:
        conv_lines = read_text(conv_out).split("\n")[:-1]
        if len(conv_lines) != len(w.lines):
            conv_lines = None
    queries = make_regions(w, rng, sit)
    if big_case:
        # one region per contig covering all of it: selects every record (the exact, often round, record count)
        allr = [(c, 0, max(n.end for n in w.coords.by_contig[c]) - 1) for c in w.coords.by_contig]
        queries.append((["multi_region", "whole_graph"], allr))
    sigs = []
    fsig = stable_hash(w.lines)
    for k, (classes, regions) in enumerate(queries):
        must, extra = set(), set()
        spans2 = False
        touches_unaligned = False
        for c, a, b in regions:
            mu, ma = node_sets(w, c, a, b)
            must |= mu
            extra |= (ma - mu)
            spans2 |= len(mu) >= 2
            touches_unaligned |= bool((mu - w.aligned)) or not mu
        extra -= must
        extra = sorted(extra)
        acceptable = []
        for r in range(len(extra) + 1):
            for comb in itertools.combinations(extra, r):
                sel = VC.expected_selection(w, must | set(comb))
                if sel not in acceptable:
                    acceptable.append(sel)
        for c in set(classes):
            sit["q:" + c] += 1
        if [] in acceptable:
            sit["q:nothing_expected"] += 1
        if min(len(s) for s in acceptable) > 1000:
            sit["selection_gt_1000_records"] += 1
        fmt = fmt_avail if (rng.random() < 0.3 and conv_lines is not None) else None
        out = os.path.join(casedir, f"r{k}.gaf")
        argv = ["view", w.gaf]
        rstr = [f"{c}:{a}-{b}" for c, a, b in regions]
        for r in rstr:
            argv += ["-r", r]
        if fmt:
            argv += ["-g", w.gfa, "-f", fmt]
        if w.gvi != w.gaf + ".gvi":
            argv += ["-i", w.gvi]
        if k % 5 == 4:  # default output: stdout
            o = run_cli(argv)
            if o.ok:
                with open(out, "w") as f:
                    f.write(o.stdout)
            sit["q:stdout_output"] += 1
        else:
            argv += ["-o", out]
            o = run_cli(argv)
        outcomes[o.kind] += 1
        wit = {"regions": rstr, "classes": sorted(set(classes)), "stable": w.stable, "mode": w.mode,
               "must_nodes": sorted(must)[:12], "may_extra": extra, "outcome": o.to_json(),
               "indexed_nodes_on_contig": sorted((w.g.nodes[n].so, w.g.nodes[n].end) for n in w.aligned if w.g.nodes[n].contig == regions[0][0])[:12]}
        if o.kind == "nontermination":
            viol.append({"kind": "nontermination", "msg": f"-r {' '.join(rstr)}: {o.message}", "witness": wit})
        elif o.kind == "internal_error":
            viol.append({"kind": "internal_error", "msg": f"-r {' '.join(rstr)}: {o.brief()}", "witness": wit})
        elif o.kind == "reported":
            if [] not in acceptable or "No alignments found" not in o.message:
                viol.append({"kind": "wrongly_reported_nothing", "msg": f"-r {' '.join(rstr)}: {o.brief()} but records {acceptable[0][:8]} are under the region", "witness": wit})
        elif o.ok:
            got = read_text(out).split("\n")
            if got and got[-1] == "":
                got = got[:-1]
            okay = False
            gn = [l.split("\t")[0] for l in got]
            for sel in acceptable:
                exp = [conv_lines[i] for i in sel] if fmt else [VC.expected_str_line(w.lines[i]) for i in sel]
                if got == exp and sel:
                    okay = True
            if not okay:
                en = [w.lines[i].split("\t")[0] for i in acceptable[0]]
                viol.append({"kind": "selection", "msg": f"-r {' '.join(rstr)}: got reads {gn[:10]} expected {en[:10]}"
                                                         + (f" (or {len(acceptable) - 1} boundary variant(s))" if len(acceptable) > 1 else ""),
                             "witness": dict(wit, got=gn[:30], expected=en[:30])})
        else:
            viol.append({"kind": "unexpected_outcome", "msg": f"-r {' '.join(rstr)}: {o.brief()}", "witness": wit})
        if spans2 or touches_unaligned:
            sigs.append(stable_hash([fsig, rstr, fmt]))
    if not big_case and rng.random() < 0.3:
        twin_check(w.g, w.gfa, rng, index, casedir, viol, sit)
    return {"sigs": sigs, "evals": len(queries), "situations": dict(sit), "violations": viol,
            "outcomes": dict(outcomes),
            "sample": {"stable": w.stable, "mode": w.mode, "queries": [r for _c, r in queries[:4]]}}


def twin_check(g, gfa, rng, index, casedir, viol, sit):
    """The node set under a region is a function of the graph and the region alone: the same
    canonical alignments written in unstable and in stable coordinates must give the same reads for
    the same region - in particular for regions that begin or end exactly on a node boundary."""
    from vf.gen import gaf as ggaf
    walks = ggaf.make_walks(g, rng, rng.randint(4, 10), maxlen=4, forced=True)
    recs = [ggaf.make_record(g, rng, wk, f"t{index}_{i}", offsets="canonical", tags="safe") for i, wk in enumerate(walks)]
    lu = [r.line for r in recs]
    ls = [rgaf.ref_to_stable(g, l) for l in lu]
    paths = {}
    for tag, lines in (("u", lu), ("s", ls)):
        p = os.path.join(casedir, f"twin_{tag}.gaf")
        ggaf.write_gaf(p, lines, mode="plain", final_newline=True)
        if not run_cli(["index", p, gfa]).ok:
            return
        paths[tag] = p
    coords = rgaf.Coords(g)
    touched = sorted({n for wk in walks for n, _ in wk})
    regions = []
    for nid in rng.sample(touched, min(4, len(touched))):
        nd = g.nodes[nid]
        ext = max(x.end for x in coords.by_contig[nd.contig])
        lo = max(0, nd.so - rng.randint(1, 8))
        if lo < nd.so:
            regions.append((nd.contig, lo, nd.so, "ends_on_node_start"))
        if nd.end < ext:
            regions.append((nd.contig, nd.end, min(ext - 1, nd.end + rng.randint(0, 8)), "starts_on_node_end"))
        regions.append((nd.contig, nd.so, nd.end - 1, "exactly_one_node"))
    for c, a, b, kind in regions:
        res = {}
        for tag in ("u", "s"):
            out = os.path.join(casedir, f"twin_{tag}.out")
            o = run_cli(["view", paths[tag], "-r", f"{c}:{a}-{b}", "-o", out], stale=False)
            res[tag] = sorted(l.split("\t")[0] for l in read_text(out).split("\n") if l) if o.ok else f"<{o.kind}:{'nothing found' if 'No alignments found' in o.message else o.message[:60]}>"
        sit["twin_region_queries"] += 1
        sit["twin:" + kind] += 1
        if res["u"] != res["s"]:
            viol.append({"kind": "region_depends_on_coordinate_system",
                         "msg": f"-r {c}:{a}-{b} ({kind}): unstable GAF gives {res['u'] if isinstance(res['u'], str) else res['u'][:8]}, "
                                f"the same alignments in stable coordinates give {res['s'] if isinstance(res['s'], str) else res['s'][:8]}",
                         "witness": {"region": f"{c}:{a}-{b}", "kind": kind, "unstable": res["u"], "stable": res["s"]}})
