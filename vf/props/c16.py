"""C16 — GAF optional fields survive parsing and re-serialisation verbatim.

Boundary oracle with the independent GAF reader on the output of every re-emitting command
(view -f, view -n, view -n -f, view -r, realign) + icontract post-condition on the real
GAF.parse_gaf_line (parsed tag list = reference split of columns 13+).
Exceptions allowed: read name cut at its first space, cg:Z value may be rewritten, ds:Z dropped or kept.
"""

import collections
import os
from vf.util import vary_name  # noqa: E402

from vf import monitor as M
from vf.cli import run_cli
from vf.gen import rgfa, gaf as ggaf, reads as greads
from vf.ref import gaf as rgaf
from vf.util import stable_hash, read_text

ID = "C16"
LEVEL = "exploration"
RULE = ("per case one rGFA and 6-30 records whose optional fields are drawn from the full SAM/GAF tag "
        "grammar (signed ints, floats with sign / exponent / leading dot, Z with punctuation and "
        "spaces, A, H, B arrays, repeated tags, ds:Z, records without any CIGAR, read names with "
        "spaces, tag-like read names), 0-12 fields per record, each value class forced at least "
        "once per case; re-emitted by view -f / -n / -n -f / -r and by realign (thorough: also a "
        "> 60 kb pass-through record); an evaluation is one re-emitted record; non-trivial = "
        "record with >= 2 optional fields; distinct by record line and command")
ASSUMPTIONS = ["well-formed optional fields only; Z values never end in a blank at the end of a line",
               "ds:Z may be dropped or kept; the cg:Z value may differ; the read name may be cut at the first space",
               "columns 5-9 under --format and 10-11 under realign are judged by C01/C12, not here"]


def plan(tier):
    return {"cases": 640 if tier == "quick" else 60000, "shards": 16,
            "shard_budget_s": 400 if tier == "quick" else 3300}


def required(tier):
    return ["post:parse_gaf_line", "cmd:view_format", "cmd:view_node", "cmd:view_node_format", "cmd:view_region",
            "cmd:realign", "records_judged", "class:negative_int", "class:float_special", "class:Z_punct",
            "class:B_array", "class:H", "class:A", "class:repeated_tag", "class:no_cigar", "class:ds",
            "class:name_with_space", "cmd:realign_passthrough", "cmd:realign_passthrough_no_cigar",
            "record_longer_than_64KiB", "class:cigar_placeholder"]


def norm_fields(fields):
    out = []
    for f in fields:
        p = f.split(":", 2)
        if len(p) == 3 and p[0] == "ds" and p[1] == "Z":
            continue
        if len(p) == 3 and p[0] == "cg" and p[1] == "Z":
            out.append("cg:Z:*")
        else:
            out.append(f)
    return out


def post_parse_gaf_line(self, line, result):
    M.hit("post:parse_gaf_line")
    if result is None or not M.CTX.get("c16"):
        return True
    text = line if isinstance(line, str) else line.decode()
    cols = text.rstrip("\n").split("\t")
    exp = norm_fields(cols[12:])
    got = norm_fields([k + ("" if v is None else str(v)) for k, v in result.tags.items()])
    # order and content of the parsed tag list vs the reference split (cg value included here)
    exp_full = [f for f in cols[12:] if not f.startswith("ds:Z:")]
    got_full = [k + str(v) for k, v in result.tags.items() if not k.startswith("ds:Z:")]
    if exp_full != got_full:
        M.record("parse_tags", f"parse_gaf_line parsed tags {got_full[:8]} from fields {exp_full[:8]}",
                 in_fields=exp, out_fields=got)
    return True


def setup(ctx):
    from gaftools import gaf
    M.attach(gaf.GAF, "parse_gaf_line", post=post_parse_gaf_line, optional=True)


FORCED = ["i", "f", "Z", "B", "H", "A"]


def classes_of(line, sit):
    cols = line.split("\t")
    tags = [f.split(":", 2) for f in cols[12:]]
    names = [t[0] for t in tags]
    for t in tags:
        if t[1] == "i" and t[2][:1] in "-+":
            sit["class:negative_int"] += 1
        if t[1] == "f" and (t[2][:1] in "-+." or "e" in t[2].lower()):
            sit["class:float_special"] += 1
        if t[1] == "Z" and t[0] not in ("cg", "ds") and any(c in t[2] for c in "_#-:*/ ,;()[]@!~=+"):
            sit["class:Z_punct"] += 1
        if t[1] == "B":
            sit["class:B_array"] += 1
        if t[1] == "H":
            sit["class:H"] += 1
        if t[1] == "A":
            sit["class:A"] += 1
        if t[0] == "ds":
            sit["class:ds"] += 1
    if len(set(names)) < len(names):
        sit["class:repeated_tag"] += 1
    if "cg" not in names:
        sit["class:no_cigar"] += 1
    if " " in cols[0]:
        sit["class:name_with_space"] += 1


def judge(in_line, out_line, cmd, viol, same_cols):
    """same_cols: indices (0-based) of mandatory columns that must be reproduced exactly"""
    a, b = in_line.split("\t"), out_line.split("\t")
    exp_name = a[0].split(" ")[0]
    for k in same_cols:
        ea = exp_name if k == 0 else a[k]
        if k >= len(b) or b[k] != ea:
            viol.append({"kind": "mandatory_column", "msg": f"{cmd}: read {exp_name}: column {k + 1} {ea!r} -> {b[k] if k < len(b) else None!r}",
                         "witness": {"cmd": cmd}})
            break
    fin, fout = norm_fields(a[12:]), norm_fields(b[12:])
    if cmd == "realign" and "cg:Z:*" not in fin and "cg:Z:*" in fout and a[3] != a[2] and int(a[3]) - int(a[2]) <= 60000:
        # realign's purpose is to produce a CIGAR: a cg:Z added (anywhere) to a realigned CIGAR-less record is not "invented"
        fout = list(fout)
        fout.remove("cg:Z:*")
    if fin != fout:
        viol.append({"kind": "tags_differ", "msg": f"{cmd}: read {exp_name}: optional fields {a[12:][:8]} re-emitted as {b[12:][:8]}",
                     "witness": {"cmd": cmd, "in_fields": fin, "out_fields": fout}})


def run_case(ctx, rng, index, casedir):
    sit = collections.Counter()
    viol = []
    M.CTX["c16"] = True
    g = rgfa.gen_rgfa(rng, size=rng.choice(["small", "medium"]), id_style="s")
    gpath = g.write(os.path.join(casedir, vary_name(rng, "g.gfa")), rng=rng)
    coords = rgaf.Coords(g)
    nrec = rng.randint(6, 30)
    walks = ggaf.make_walks(g, rng, nrec, maxlen=6)
    recs = []
    for i, w in enumerate(walks):
        name = f"r{index}_{i}"
        if rng.random() < 0.06:
            name = f"zr:Z:read{index}x{i}"  # a read name that looks like an optional field
        r = ggaf.make_record(g, rng, w, name, offsets="any", tags="none", cigar=False, name_space=rng.random() < 0.2)
        cg = ggaf.rand_cigar(rng, r.pe - r.ps)[0] if rng.random() < 0.85 else None
        if cg is not None and rng.random() < 0.06:
            cg = "*"  # the "not available" placeholder: still a cg:Z field of the record
            sit["class:cigar_placeholder"] += 1
        forced = FORCED if i == 0 else None
        fields = ggaf.grammar_tags(rng, cg, n=len(FORCED) + 1 if i == 0 else None, forced=forced,
                                   repeats=True)
        if i == 1 and len(fields) >= 1:
            fields.append(fields[0].split(":", 2)[0] + ":i:7") if not fields[0].startswith("cg") else None
        if i >= 2 and rng.random() < 0.01:
            # an ultra-long record (a CIGAR-sized field of more than 64 KiB) with ordinary fields after it
            fields.insert(rng.randint(0, len(fields)), "zu:Z:" + "7=1X" * rng.randint(17000, 20000))
            sit["record_longer_than_64KiB"] += 1
        recs.append("\t".join(r.line.split("\t")[:12] + fields))
    for l in recs:
        classes_of(l, sit)
    mode = rng.choice(["plain", "bgzf"])
    gaf = os.path.join(casedir, vary_name(rng, "in.gaf") + ("" if mode == "plain" else ".gz"))
    ggaf.write_gaf(gaf, recs, mode=mode, rng=rng, layout="tiny")
    by_name = {l.split("\t")[0].split(" ")[0]: l for l in recs}
    sigs = []
    evals = 0

    def judge_file(path_or_text, cmd, same_cols, is_text=False):
        nonlocal evals
        text = path_or_text if is_text else read_text(path_or_text)
        for ol in text.split("\n"):
            if not ol:
                continue
            nm = ol.split("\t")[0]
            il = by_name.get(nm)
            if il is None:
                viol.append({"kind": "unknown_record", "msg": f"{cmd}: output record {nm!r} matches no input record", "witness": {"cmd": cmd}})
                continue
            evals += 1
            M.hit("records_judged")
            judge(il, ol, cmd, viol, same_cols)
            if len(il.split("\t")) >= 14:
                sigs.append(stable_hash([il, cmd]))

    ALL12 = tuple(range(12))
    CONV = (0, 1, 2, 3, 9, 10, 11)
    # 1. whole-file conversion
    out = os.path.join(casedir, "stable.gaf")
    o = run_cli(["view", gaf, "-g", gpath, "-f", "stable", "-o", out])
    sit["cmd:view_format"] += 1
    if o.ok:
        judge_file(out, "view -f stable", CONV)
    else:
        viol.append({"kind": "command_failed", "msg": f"view -f stable: {o.brief()}", "witness": {"cmd": "view -f stable", "outcome": o.to_json()}})
    # 2-4. selections need the index
    oi = run_cli(["index", gaf, gpath])
    if oi.ok:
        nodes = list({n for w in walks for n, _ in w})
        rng.shuffle(nodes)
        sel = nodes[: rng.randint(1, 4)]
        argv = ["view", gaf]
        for n in sel:
            argv += ["-n", n]
        out = os.path.join(casedir, "sel.gaf")
        o = run_cli(argv + ["-o", out])
        sit["cmd:view_node"] += 1
        if o.ok:
            judge_file(out, "view -n", ALL12)
        else:
            viol.append({"kind": "command_failed", "msg": f"view -n: {o.brief()}", "witness": {"cmd": "view -n", "outcome": o.to_json()}})
        out = os.path.join(casedir, "self.gaf")
        o = run_cli(argv + ["-g", gpath, "-f", "stable", "-o", out])
        sit["cmd:view_node_format"] += 1
        if o.ok:
            judge_file(out, "view -n -f stable", CONV)
        else:
            viol.append({"kind": "command_failed", "msg": f"view -n -f: {o.brief()}", "witness": {"cmd": "view -n -f", "outcome": o.to_json()}})
        nd = g.nodes[rng.choice(sel)]
        out = os.path.join(casedir, "reg.gaf")
        o = run_cli(["view", gaf, "-r", f"{nd.contig}:{nd.so}-{nd.end - 1}", "-o", out])
        sit["cmd:view_region"] += 1
        if o.ok:
            judge_file(out, "view -r", ALL12)
        elif o.kind != "reported":
            viol.append({"kind": "command_failed", "msg": f"view -r: {o.brief()}", "witness": {"cmd": "view -r", "outcome": o.to_json()}})
    # 5. realign: records with real reads
    rrecs = []
    rwalks = ggaf.make_walks(g, rng, rng.randint(3, 8), maxlen=5, forced=False)
    for i, w in enumerate(rwalks):
        rr = greads.make_read_record(g, rng, w, f"q{index}_{i}", tags="none", max_span=300)
        cols = rr.line.split("\t")
        cg = cols[-1][5:]
        fields = ggaf.grammar_tags(rng, cg if rng.random() < 0.9 else None, repeats=True)
        rr.line = "\t".join(cols[:12] + fields)
        rrecs.append(rr)
    if rng.random() < (0.25 if ctx.tier == "quick" else 0.4):
        # pass-through record (> 60 000 query bases are re-emitted as parsed), with and without a CIGAR
        big = greads.make_read_record(g, rng, rwalks[0], f"big{index}", tags="none", rate=0.0)
        cols = big.line.split("\t")
        read = rgfa.rand_seq(rng, 60_001 + rng.randint(0, 5))
        cols[1], cols[2], cols[3] = str(len(read)), "0", str(len(read))
        big.read = read
        big.line = "\t".join(cols[:12] + ggaf.grammar_tags(rng, cols[-1][5:] if rng.random() < 0.5 else None, repeats=False))
        rrecs.append(big)
        sit["cmd:realign_passthrough"] += 1
        if "cg:Z:" not in big.line:
            sit["cmd:realign_passthrough_no_cigar"] += 1
    for rr in rrecs:
        classes_of(rr.line, sit)
        by_name[rr.name] = rr.line
    rgaf_path = os.path.join(casedir, "re.gaf")
    ggaf.write_gaf(rgaf_path, [r.line for r in rrecs])
    fa = greads.write_fasta(os.path.join(casedir, "reads.fa"), [(r.name, r.read) for r in rrecs])
    out = os.path.join(casedir, "realigned.gaf")
    o = run_cli(["realign", rgaf_path, gpath, fa, "-o", out])
    sit["cmd:realign"] += 1
    if o.ok:
        judge_file(out, "realign", (0, 1, 2, 3, 4, 5, 6, 7, 8, 11))
    else:
        viol.append({"kind": "command_failed", "msg": f"realign: {o.brief()}", "witness": {"cmd": "realign", "outcome": o.to_json()}})
    M.CTX.clear()
    return {"sigs": sigs, "evals": max(evals, 1), "situations": dict(sit), "violations": viol,
            "sample": {"records": [l[:220] for l in recs[:3]]}}
