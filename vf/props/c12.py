"""C12 — realign emits a valid global alignment of read slice to path slice.

Boundary oracle on the -o output of the real `gaftools realign`: every record's CIGAR is replayed
over read[qs:qe] (from the generated FASTA) and path[ps:pe] (spelled by the harness from its own
ground truth, not via extract_path / pysam): '=' pairs equal bases, 'X' unequal bases, both strings
consumed exactly; column 10 = sum '=', column 11 = sum of all ops; gap-affine cost (x=4, o=6, e=2)
no worse than the input CIGAR's; all other columns and optional fields unchanged; > 60 000-base
alignments pass through unchanged.  For reads <= 200 bp a Gotoh DP confirms optimality (evidence
that the cost bound is not vacuous). The C14 contracts are attached to extract_path.
"""

import collections
import os
from vf.util import vary_name  # noqa: E402

from vf import monitor as M
from vf.cli import run_cli
from vf.gen import rgfa, gaf as ggaf, reads as greads
from vf.props import c14
from vf.util import stable_hash, read_text

ID = "C12"
LEVEL = "exploration"
RULE = ("per case one sequence graph (links in all orientations, inversions, self-links) and 3-25 "
        "walk alignments with reads derived from the path slice by substitutions / insertions / "
        "deletions / long indels, input CIGAR = the true edit script or a fragmented (valid, "
        "costlier) version of it, spans 1-600 bp (thorough up to 20 000, plus 60 000 exactly and "
        "60 001 pass-through); an evaluation is one output record; non-trivial = record whose "
        "true edit script has >= 2 operations or whose walk has a reverse step; distinct by record line")
ASSUMPTIONS = ["upper-case ACGT sequences only", "gap-affine penalties mismatch 4, gap opening 6, gap extension 2 (pywfa 0.5.1 defaults, as used by realign)",
               "safe-class optional fields (tag grammar is C16's subject); the cg:Z field keeps its position",
               "the read name in the FASTA equals the GAF read name"]


def plan(tier):
    return {"cases": 640 if tier == "quick" else 32000, "shards": 16,
            "shard_budget_s": 400 if tier == "quick" else 3300}


def required(tier):
    base = ["records_judged", "cigar_replays_ok", "reverse_step_records", "fragmented_inputs", "long_indel_reads",
            "gotoh_optimal_confirmed", "cost_strictly_improved", "post:extract_path", "multi_core_runs", "supplementary_records", "stdout_output_runs", "soft_masked_graphs"]
    base += ["span_60000_exact", "passthrough_records", "threshold_straddling_records"]
    return base


def setup(ctx):
    from gaftools import gfa
    M.attach(gfa.GFA, "path_exists", post=c14.post_path_exists)
    M.attach(gfa.GFA, "extract_path", post=c14.post_extract_path)


def run_case(ctx, rng, index, casedir):
    sit = collections.Counter()
    viol = []
    big_case = (ctx.tier == "thorough" and index % 40 == 0) or (ctx.tier == "quick" and index % 160 == 0)
    g = rgfa.gen_rgfa(rng, size="medium" if not big_case else "large", id_style=rng.choice(["s", "name"]))
    if big_case:
        # long nodes so that a 60 kb path exists
        g = rgfa.Graph()
        prev = None
        for i in range(8):
            nid = g.add_node(f"s{i + 1}", "chr1", i * 9000, rgfa.rand_seq(rng, 9000), 0)
            if prev:
                g.add_link(prev, "+", nid, "+", 0, rng=rng)
            prev = nid
        g.ref_order = {"chr1": list(g.nodes)}
    elif rng.random() < 0.5:
        rgfa.stretch(g, rng, rng.choice([5, 20, 60]) if ctx.tier == "quick" else rng.choice([5, 20, 60, 200]))
        sit["stretched_graphs"] += 1
    if not big_case and rng.random() < 0.2:
        # soft-masked graph; the reads are derived from the walks and carry the same lower-case bases
        for n in g.nodes.values():
            n.seq = "".join(c.lower() if rng.random() < 0.4 else c for c in n.seq)
        sit["soft_masked_graphs"] += 1
    gpath = g.write(os.path.join(casedir, vary_name(rng, "g.gfa") + (".gz" if rng.random() < 0.2 else "")), rng=rng, shuffle=rng.random() < 0.4)
    M.CTX["pairs"], M.CTX["seqs"] = g.step_pairs(), g.seqs()
    recs = []
    if big_case:
        w = [(n, ">") for n in g.nodes]
        for k, (span, nm) in enumerate([(60000, "exact60000"), (60001, "pass60001"), (rng.randint(5000, 20000), "long")]):
            # cheap near-identical reads
            # the two boundary probes are gap-free (read span == path span), the third one has edits
            r = greads.make_read_record(g, rng, w, f"{nm}_{index}", tags="safe", rate=0.0005 if nm == "long" else 0.0, frag=False, exact_span=span)
            recs.append(r)
        # read span and path span on opposite sides of the 60 000 threshold (net insertion / deletion)
        pseq = rgfa.spell_walk(g, w)
        for nm, pspan, kind in (("ins_straddle", 59_990, "I"), ("del_straddle", 60_010, "D")):
            ps = rng.randint(0, len(pseq) - pspan)
            target = pseq[ps:ps + pspan]
            if kind == "I":
                seg = target[:30000] + rgfa.rand_seq(rng, 20) + target[30000:]
                ops = [(12000, "="), (18000, "="), (20, "I"), (pspan - 30000, "=")]  # fragmented, valid
            else:
                seg = target[:30000] + target[30020:]
                ops = [(30000, "="), (20, "D"), (pspan - 30020, "=")]
            r = greads.ReadRec()
            r.shared_with = r.owner = None
            r.name, r.read, r.qs, r.qe, r.ps, r.pe, r.walk, r.target = f"{nm}_{index}", seg, 0, len(seg), ps, ps + pspan, w, target
            r.true_ops = greads.merge(ops)
            r.in_cigar = greads.cigar_str(ops)
            cols = [r.name, str(len(seg)), "0", str(len(seg)), "+", rgfa.path_str(w), str(len(pseq)), str(ps), str(ps + pspan),
                    str(sum(n for n, o in ops if o == "=")), str(sum(n for n, _ in ops)), "60", "tp:A:P", f"cg:Z:{r.in_cigar}"]
            r.line = "\t".join(cols)
            recs.append(r)
            sit["threshold_straddling_records"] += 1
        # supplementary alignments of the reads that are passed through: short slices of the SAME read,
        # directly after (and once before) the long record, realigned normally
        out = []
        for r in recs:
            if r.qe - r.qs > 60000 and r.read is not None:
                sup = []
                for _k in range(2):
                    span = rng.randint(150, 400)
                    qs = rng.randint(r.qs, r.qe - span)
                    s = greads.ReadRec()
                    s.shared_with, s.owner = r, r
                    tps = r.ps + (qs - r.qs)  # the long reads of this block are gap-free copies of the path slice
                    s.name, s.read, s.qs, s.qe, s.ps, s.pe, s.walk = r.name, None, qs, qs + span, tps, tps + span, r.walk
                    s.target = pseq[tps:tps + span]
                    if r.read[qs:qs + span] != s.target:
                        continue  # (a straddling read with an indel before this slice)
                    ops = greads.fragment(rng, [(span, "=")], p=1.0)
                    s.true_ops, s.in_cigar = [(span, "=")], greads.cigar_str(ops)
                    s.line = "\t".join([r.name, str(len(r.read)), str(qs), str(qs + span), "+", rgfa.path_str(r.walk), str(len(pseq)), str(tps), str(tps + span),
                                        str(sum(n for n, o in ops if o == "=")), str(sum(n for n, _ in ops)), "60", "tp:A:S", f"cg:Z:{s.in_cigar}"])
                    sup.append(s)
                    sit["supplementary_of_pass_through_read"] += 1
                out += ([r] + sup) if (r.name.startswith("pass") or rng.random() < 0.5) else (sup[:1] + [r] + sup[1:])
            else:
                out.append(r)
        recs = out
    else:
        n = rng.randint(3, 25)
        walks = ggaf.make_walks(g, rng, n, maxlen=rng.choice([2, 5, 10]), forced=True)
        hi = 600 if ctx.tier == "quick" else rng.choice([600, 2000, 6000])
        for i, w in enumerate(walks):
            recs.append(greads.make_read_record(g, rng, w, f"q{index}_{i}", tags="safe", max_span=hi))
    # supplementary alignments: several GAF records that refer to different slices of ONE read
    if not big_case and len(recs) >= 4:
        for k in range(1, len(recs)):
            if rng.random() < 0.2:
                a, b = recs[rng.randrange(k)], recs[k]
                while a.shared_with is not None:
                    a = a.shared_with
                seg = b.read[b.qs:b.qe]
                spacer = rgfa.rand_seq(rng, rng.randint(0, 10))
                b.qs = len(a.read) + len(spacer)
                b.qe = b.qs + len(seg)
                a.read = a.read + spacer + seg
                b.read = None
                b.name = a.name
                b.shared_with = a
                sit["supplementary_records"] += 1
        for r in recs:  # rewrite name / query length / query start-end columns
            owner = r
            while owner.shared_with is not None:
                owner = owner.shared_with
            c = r.line.split("\t")
            c[0], c[1], c[2], c[3] = owner.name, str(len(owner.read)), str(r.qs), str(r.qe)
            r.line = "\t".join(c)
            r.owner = owner
    lines = [r.line for r in recs]
    mode = rng.choice(["plain", "plain", "bgzf"])
    gaf = os.path.join(casedir, vary_name(rng, "in.gaf") + ("" if mode == "plain" else ".gz"))
    ggaf.write_gaf(gaf, lines, mode=mode, rng=rng, layout="tiny")
    fa = greads.write_fasta(os.path.join(casedir, "reads.fa"), [(r.name, r.read) for r in recs if r.read is not None], width=rng.choice([60, 80, 1000]))
    if rng.random() < 0.15:
        # the reads as a bgzip-compressed FASTA (pysam puts .fai and .gzi next to it)
        from vf import bgzf as _bgzf
        with open(fa, "rb") as f:
            data = f.read()
        _bgzf.write_bgzf(fa + ".gz", data, rng=rng, layout="standard")
        os.remove(fa)
        fa = fa + ".gz"
        sit["bgzip_fasta_runs"] += 1
    cores = rng.choice([1, 1, 2, 3])
    if cores > 1:
        sit["multi_core_runs"] += 1
    out = os.path.join(casedir, "out.gaf")
    if rng.random() < 0.2:  # default output: stdout
        o = run_cli(["realign", gaf, gpath, fa, "-c", str(cores)])
        if o.ok:
            with open(out, "w") as f:
                f.write(o.stdout)
        sit["stdout_output_runs"] += 1
    else:
        o = run_cli(["realign", gaf, gpath, fa, "-o", out, "-c", str(cores)])
    sigs = []
    evals = 0
    if not o.ok:
        viol.append({"kind": "realign_failed", "msg": f"realign: {o.brief()}", "witness": {"outcome": o.to_json(), "tb": o.tb[-600:]}})
    else:
        outl = read_text(out).split("\n")
        if outl and outl[-1] == "":
            outl = outl[:-1]
        if [l.split("\t")[0] for l in outl] != [r.name for r in recs]:
            viol.append({"kind": "record_sequence", "msg": f"output reads {[l.split(chr(9))[0] for l in outl][:8]} expected {[r.name for r in recs][:8]}"})
        for r, ol in zip(recs, outl):
            evals += 1
            M.hit("records_judged")
            a, b = r.line.split("\t"), ol.split("\t")
            span = r.qe - r.qs
            if any(o_ == "<" for _n, o_ in r.walk):
                sit["reverse_step_records"] += 1
            if greads.cigar_str(r.true_ops) != r.in_cigar:
                sit["fragmented_inputs"] += 1
            if any(n_ >= 8 and o_ in "ID" for n_, o_ in r.true_ops):
                sit["long_indel_reads"] += 1
            if len(r.true_ops) >= 2 or any(o_ == "<" for _n, o_ in r.walk):
                sigs.append(stable_hash(r.line))
            if span > 60000:
                sit["passthrough_records"] += 1
                if ol != r.line:
                    viol.append({"kind": "passthrough_changed", "msg": f"record {r.name} (span {span} > 60000) was not passed through unchanged: "
                                                                       f"{[k + 1 for k in range(min(len(a), len(b))) if a[k] != b[k]][:6]} differ"})
                continue
            if span == 60000:
                sit["span_60000_exact"] += 1
            # columns other than 10/11 and optional fields other than the cg value
            same = [k for k in range(12) if k not in (9, 10)]
            if any(k >= len(b) or a[k] != b[k] for k in same):
                viol.append({"kind": "column_changed", "msg": f"record {r.name}: mandatory columns {a[:12]} -> {b[:12]}"})
                continue
            fa_, fb_ = [f if not f.startswith("cg:Z:") else "cg:Z:*" for f in a[12:]], [f if not f.startswith("cg:Z:") else "cg:Z:*" for f in b[12:]]
            if fa_ != fb_:
                viol.append({"kind": "optional_fields", "msg": f"record {r.name}: optional fields {a[12:]} -> {b[12:]}"})
            cg = next((f[5:] for f in b[12:] if f.startswith("cg:Z:")), None)
            if cg is None:
                viol.append({"kind": "no_cigar", "msg": f"record {r.name}: no cg:Z field in the output"})
                continue
            query = (r.owner or r).read[r.qs:r.qe]
            ok, msg, st = greads.replay(cg, query, r.target)
            if not ok:
                viol.append({"kind": "cigar_invalid", "msg": f"record {r.name} path {a[5]}[{r.ps}:{r.pe}]: {msg}; CIGAR {cg[:60]}",
                             "witness": {"cigar": cg[:200], "query": query[:80], "target": r.target[:80]}})
                continue
            M.hit("cigar_replays_ok")
            if int(b[9]) != st["matches"]:
                viol.append({"kind": "match_count", "msg": f"record {r.name}: column 10 = {b[9]} but the CIGAR has {st['matches']} '=' bases"})
            if int(b[10]) != st["block"]:
                viol.append({"kind": "block_length", "msg": f"record {r.name}: column 11 = {b[10]} but the CIGAR spans {st['block']} columns"})
            ok_in, msg_in, st_in = greads.replay(r.in_cigar, query, r.target)
            if not ok_in:
                raise RuntimeError(f"generator produced an invalid input CIGAR: {msg_in}")
            if st["cost"] > st_in["cost"]:
                viol.append({"kind": "cost_worse", "msg": f"record {r.name}: cost of the new CIGAR {st['cost']} > cost of the input CIGAR {st_in['cost']}",
                             "witness": {"new": cg[:200], "input": r.in_cigar[:200]}})
            elif st["cost"] < st_in["cost"]:
                sit["cost_strictly_improved"] += 1
            if len(query) <= 200 and len(r.target) <= 200:
                opt = greads.gotoh(query, r.target)
                if st["cost"] == opt:
                    sit["gotoh_optimal_confirmed"] += 1
                else:
                    sit["gotoh_suboptimal_observed"] += 1
    M.CTX.clear()
    return {"sigs": sigs, "evals": max(evals, 1), "situations": dict(sit), "violations": viol,
            "sample": {"records": len(recs), "cores": cores, "first": lines[0][:200]}}


def finish(ctx):
    """thorough tier, shard 0 only: the non-gating ASan/UBSan run of the aligner (DESIGN section 4)"""
    if ctx.tier != "thorough" or ctx.shard != 0:
        return None
    from vf import asan_pywfa
    try:
        return {"native_sanitizer": asan_pywfa.run(300, ctx.seed)}
    except Exception as e:  # noqa: BLE001
        return {"native_sanitizer": {"status": "unavailable", "reason": repr(e)}}
