"""Supervisor-side helpers for C11/C13: workloads for realign, launching the driver subprocess
(own session, SIGKILL to the whole group on watchdog), merging the per-process event logs,
sampling /proc for the structural deadlock verdict."""

import collections
import glob
import json
import os
import signal
import subprocess
import time

from vf import util
from vf.gen import rgfa, gaf as ggaf, reads as greads


class RW:
    pass


def make_workload(rng, casedir, nrec, tag="w", big_tag=None, read_len=(30, 200), long_reads=0):
    w = RW()
    if long_reads:
        # a linear graph long enough for alignments of more than 60 000 read bases (written back unchanged)
        g = rgfa.Graph()
        prev = None
        for i in range(8):
            nid = g.add_node(f"s{i + 1}", "chr1", i * 9000, rgfa.rand_seq(rng, 9000), 0)
            if prev:
                g.add_link(prev, "+", nid, "+", 0, rng=rng)
            prev = nid
        g.ref_order = {"chr1": list(g.nodes)}
    else:
        g = rgfa.gen_rgfa(rng, size="medium", id_style="s")
        rgfa.stretch(g, rng, 5)
    w.g = g
    w.gfa = g.write(os.path.join(casedir, f"{tag}.gfa"), rng=rng)
    succ = g.successors()
    recs = []
    for i in range(nrec):
        wk = rgfa.random_walk(g, rng, rng.choice([1, 2, 4]), succ)
        tags = "safe" if not big_tag else [f"zl:Z:{'x' * big_tag}"]
        recs.append(greads.make_read_record(g, rng, wk, f"r{i:04d}", tags=tags, max_span=read_len[1], min_span=min(read_len[0], 5)))
    for k in range(long_reads):
        full = [(n, ">") for n in g.nodes]
        r = greads.make_read_record(g, rng, full, f"long{k:02d}", tags="safe", rate=0.0, frag=False, exact_span=rng.choice([60001, 60500]))
        recs.insert(rng.randint(0, len(recs)), r)
    w.recs = recs
    w.lines = [r.line for r in recs]
    w.gaf = os.path.join(casedir, f"{tag}.gaf")
    ggaf.write_gaf(w.gaf, w.lines)
    w.fasta = greads.write_fasta(os.path.join(casedir, f"{tag}.fa"), [(r.name, r.read) for r in recs])
    # build the .fai once so that concurrent drivers do not race on creating it
    import pysam
    pysam.FastaFile(w.fasta).close()
    return w


def driver_env(batch, hashseed=0):
    env = dict(os.environ)
    env["PYTHONPATH"] = util.VERIF + os.pathsep + util.DEPS
    env["PYTHONHASHSEED"] = str(hashseed)
    env["PYTHONDONTWRITEBYTECODE"] = "1"
    env[util.GUARD] = "1"
    if batch:
        env["GAFTOOLS_VERIF_REALIGN_BATCH"] = str(batch)
    else:
        env.pop("GAFTOOLS_VERIF_REALIGN_BATCH", None)
    return env


def proc_snapshot(pgid):
    """state / syscall / wchan / cpu time of every thread of every process in the process group"""
    snap = {}
    for d in glob.glob("/proc/[0-9]*"):
        pid = int(d.rsplit("/", 1)[1])
        try:
            if os.getpgid(pid) != pgid:
                continue
            for t in glob.glob(f"{d}/task/[0-9]*"):
                tid = int(t.rsplit("/", 1)[1])
                with open(f"{t}/stat") as f:
                    st = f.read()
                rest = st[st.rindex(")") + 2:].split()
                state, utime, stime = rest[0], int(rest[11]), int(rest[12])
                try:
                    with open(f"{t}/syscall") as f:
                        sc = f.read().split()
                except OSError:
                    sc = ["?"]
                try:
                    with open(f"{t}/wchan") as f:
                        wchan = f.read().strip()
                except OSError:
                    wchan = "?"
                snap[(pid, tid)] = {"state": state, "cpu": utime + stime, "syscall": sc[:3], "args": sc[1:7], "wchan": wchan}
        except (ProcessLookupError, FileNotFoundError, PermissionError):
            continue
    return snap


def fd_target(pid, fd):
    try:
        return os.readlink(f"/proc/{pid}/fd/{fd}")
    except OSError:
        return None


def run_driver(casedir, tag, argv, plan, batch, timeout=60, on_poll=None, stdout_file=None):
    """returns dict(rc, result, events, timed_out, diag, wall)"""
    logdir = os.path.join(casedir, f"log-{tag}")
    os.makedirs(logdir, exist_ok=True)
    spec = {"argv": argv, "plan": plan, "logdir": logdir, "stdout_file": stdout_file}
    sp = os.path.join(casedir, f"{tag}.spec.json")
    rp = os.path.join(casedir, f"{tag}.result.json")
    with open(sp, "w") as f:
        json.dump(spec, f)
    t0 = time.monotonic()
    errf = open(os.path.join(logdir, "stderr.txt"), "w")
    p = subprocess.Popen([util.PY, "-B", "-m", "vf.realign_driver", sp, rp], cwd=casedir, env=driver_env(batch),
                         stdout=errf, stderr=subprocess.STDOUT, start_new_session=True)
    timed_out = False
    diag = None
    while True:
        rc = p.poll()
        if rc is not None:
            break
        if on_poll is not None:
            on_poll(p, logdir)
        if time.monotonic() - t0 > timeout:
            timed_out = True
            diag = diagnose(p, logdir)
            break
        time.sleep(0.02)
    try:
        os.killpg(p.pid, signal.SIGKILL)
    except (ProcessLookupError, PermissionError):
        pass
    p.wait()
    errf.close()
    res = None
    if os.path.exists(rp):
        with open(rp) as f:
            res = json.load(f)
    return {"rc": None if timed_out else rc, "result": res, "events": load_events(logdir), "timed_out": timed_out,
            "diag": diag, "wall": time.monotonic() - t0, "logdir": logdir}


def load_events(logdir):
    ev = []
    for fn in glob.glob(os.path.join(logdir, "*.jsonl")):
        with open(fn) as f:
            for line in f:
                try:
                    ev.append(json.loads(line))
                except ValueError:
                    pass
    ev.sort(key=lambda e: e["t"])
    return ev


def diagnose(p, logdir):
    """Structural deadlock verdict for a driver that did not finish: every living process sits in a
    blocking syscall, no CPU time is consumed between two samples 1 s apart, and the parent's
    blocking read is on a pipe whose only other writers are dead (or the parent itself)."""
    pgid = p.pid
    s1 = proc_snapshot(pgid)
    time.sleep(1.0)
    s2 = proc_snapshot(pgid)
    try:
        os.kill(p.pid, signal.SIGUSR1)  # faulthandler stacks of the parent into stacks.<pid>.txt
    except ProcessLookupError:
        pass
    time.sleep(0.3)
    stacks = ""
    sf = os.path.join(logdir, f"stacks.{p.pid}.txt")
    if os.path.exists(sf):
        stacks = open(sf).read()[-3000:]
    # zombies (killed, not yet reaped) are dead: they can wake nobody and need no progress
    live2 = {k: v for k, v in s2.items() if v["state"] not in ("Z", "X")}
    live1 = {k: v for k, v in s1.items() if v["state"] not in ("Z", "X")}
    pids = sorted({pid for pid, _ in live2})
    cpu_by_pid = collections.Counter()
    for k in live2:
        if k in live1:
            cpu_by_pid[k[0]] += live2[k]["cpu"] - live1[k]["cpu"]
    cpu_used = sum(cpu_by_pid.values())
    blocked = all(v["state"] in ("S", "D") for v in live2.values())
    same_threads = set(live1) == set(live2)
    parent_main = s2.get((p.pid, p.pid))
    parent_sc = parent_main["syscall"] if parent_main else None
    parent_fd = None
    pipe_writers = None
    if parent_sc and parent_sc[0] == "0" and len(parent_sc) > 1:  # read(fd, ...)
        fd = int(parent_sc[1], 16)
        parent_fd = fd_target(p.pid, fd)
        if parent_fd and parent_fd.startswith("pipe:"):
            pipe_writers = []
            for pid in pids:
                for f in glob.glob(f"/proc/{pid}/fd/*"):
                    try:
                        if os.readlink(f) == parent_fd:
                            with open(f"/proc/{pid}/fdinfo/{f.rsplit('/', 1)[1]}") as fi:
                                flags = int(fi.read().split("flags:")[1].split()[0], 8)
                            if flags & 1:  # O_WRONLY
                                pipe_writers.append(pid)
                    except (OSError, ValueError, IndexError):
                        pass
    survivors = [pid for pid in pids if pid != p.pid]
    # every thread of every survivor waits in futex (syscall 202) and used no CPU
    surv_futex = bool(survivors) and all(
        all(v["syscall"][0] == "202" for (pp, _t), v in live2.items() if pp == pid) and cpu_by_pid[pid] == 0
        for pid in survivors)

    def blocks_forever(pid, v):
        """the thread sits in a blocking syscall without a time-out that only another member of the
        process group could end"""
        sc = v["syscall"]
        try:
            no = int(sc[0])
            args = [int(x, 16) for x in v.get("args", [])]
        except ValueError:
            return False
        if no == 202:  # futex(uaddr, op, val, timeout, ...)
            return len(args) > 3 and args[3] == 0
        if no == 0:  # read(fd, ...): on a pipe of the group
            t = fd_target(pid, args[0]) if args else None
            return bool(t and t.startswith("pipe:"))
        if no == 1:  # write(fd, ...) blocked on a full pipe
            t = fd_target(pid, args[0]) if args else None
            return bool(t and t.startswith("pipe:"))
        if no == 61:  # wait4(pid, status, options, ...) without WNOHANG
            return len(args) > 2 and not (args[2] & 1)
        if no == 247:  # waitid(..., options) without WNOHANG
            return len(args) > 3 and not (args[3] & 1)
        if no == 7:  # poll(fds, n, timeout) with timeout -1
            return len(args) > 2 and (args[2] & 0xFFFFFFFF) == 0xFFFFFFFF
        if no in (23, 270):  # select / pselect6 with a NULL timeout
            return len(args) > 4 and args[4] == 0
        if no == 232:  # epoll_wait(..., timeout) with -1
            return len(args) > 3 and (args[3] & 0xFFFFFFFF) == 0xFFFFFFFF
        return False

    all_forever = bool(live2) and all(blocks_forever(k[0], v) for k, v in live2.items())
    proven = False
    why = "not decided"
    mechanism = None
    if blocked and same_threads:
        if cpu_used == 0 and parent_sc and parent_sc[0] == "0" and pipe_writers is not None and set(pipe_writers) <= {p.pid}:
            proven = True
            mechanism = "partial_message_in_pipe"
            why = ("parent blocked in read() on the queue pipe whose only remaining writer is the parent itself "
                   "(the worker that was writing the message is dead); no CPU consumed")
        elif surv_futex and cpu_by_pid[p.pid] <= 3:
            proven = True
            mechanism = "writer_lock_held_by_dead_process"
            why = ("every thread of every surviving worker waits in futex on the queue's writer lock whose holder is dead, "
                   "so they never exit; the parent only polls the queue and the liveness check; no progress possible")
        elif all_forever and cpu_used == 0:
            proven = True
            mechanism = "all_threads_blocked_without_timeout"
            why = ("every thread of every living process of the group sits in a blocking system call without a time-out "
                   "(futex / pipe read / pipe write / wait4) that only another member of the group could end; no CPU consumed: "
                   + ", ".join(sorted({f"{k[0]}:{v['syscall'][0]}" for k, v in live2.items()})))
    return {"proven_deadlock": proven, "why": why, "mechanism": mechanism, "cpu_ticks_between_samples": cpu_used, "all_blocked": blocked,
            "parent_syscall": parent_sc, "parent_fd": parent_fd, "pipe_writers": pipe_writers, "survivors": survivors,
            "threads": {f"{k[0]}/{k[1]}": v for k, v in list(s2.items())[:12]}, "stacks": stacks[-1500:]}
