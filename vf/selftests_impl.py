def run():
    print("selftest: ok (placeholder)")
    return 0
