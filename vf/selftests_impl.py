"""Self-tests of the harness's reference models against the repository's golden data and
hand-computed examples. A failure here is a defect of the *machinery* (inconclusive), never a
verdict on gaftools."""

import gzip
import os
import random
import tempfile
import traceback

from vf import bgzf, util
from vf.util import REPO

DATA = os.path.join(REPO, "tests", "data")


def graph_from_file(path):
    from vf.gen.rgfa import Graph
    from vf.ref import gfa as rg
    r = rg.read(path)
    g = Graph()
    for sid, (seq, _t) in r.segments.items():
        g.add_node(sid, r.tag(sid, "SN"), int(r.tag(sid, "SO")), seq, int(r.tag(sid, "SR")))
    for a, oa, b, ob, ov, t in r.links:
        g.links.append([a, oa, b, ob, int(ov[:-1]), t])
    return g, r


def t_chain_smallgraph():
    from vf.gen import chain
    from vf.ref import gfa as rg
    g, _ = graph_from_file(os.path.join(DATA, "smallgraph.gfa"))
    ro = chain.reference_order(g, set(g.nodes), "chr1")
    assert ro["chain"] is not None, ro["reason"]
    tags, _bo = chain.assign_bo_no(ro["chain"], 0)
    gold = rg.read(os.path.join(DATA, "smallgraph-ordered.gfa"))
    exp = {s: (int(gold.tag(s, "BO")), int(gold.tag(s, "NO"))) for s in gold.segments}
    assert tags == exp, f"reference chain order differs from smallgraph-ordered.gfa: {tags} vs {exp}"


def t_conversion_golden():
    from vf.ref import gaf as rgaf
    g, _ = graph_from_file(os.path.join(DATA, "smallgraph.gfa"))
    coords = rgaf.Coords(g)
    un = [l.rstrip("\n") for l in open(os.path.join(DATA, "alignments-minigraph-unstable-conversioncheck.gaf")) if l.strip()]
    st = [l.rstrip("\n") for l in open(os.path.join(DATA, "alignments-minigraph-stable-conversioncheck.gaf")) if l.strip()]
    assert len(un) == len(st) and un
    for u, s in zip(un, st):
        conv = rgaf.ref_to_stable(g, u)
        assert conv == s, f"reference conversion differs from golden file:\n{conv}\n{s}"
        tu, lu = coords.target(rgaf.Rec(u))
        ts, ls = coords.target(rgaf.Rec(s))
        assert tu is not None and tu == ts and lu == ls, "spelling oracle disagrees on a golden record pair"
        assert rgaf.traversed_nodes(g, coords, u) >= rgaf.traversed_nodes(g, coords, s)
    rv_u = [l.rstrip("\n") for l in open(os.path.join(DATA, "alignments-minigraph-reversed-reads-unstable.gaf")) if l.strip()]
    rv_s = [l.rstrip("\n") for l in open(os.path.join(DATA, "alignments-minigraph-reversed-reads-stable.gaf")) if l.strip()]
    for u, s in zip(rv_u, rv_s):
        tu, _ = coords.target(rgaf.Rec(u))
        ts, _ = coords.target(rgaf.Rec(s))
        assert tu is not None and tu == ts, "spelling oracle disagrees on a golden reversed record pair"


def t_bgzf():
    from pysam import libcbgzf
    rng = random.Random(5)
    lines = [("r%d\t" % i) + "x" * rng.randint(1, 3000) for i in range(200)]
    data = ("\n".join(lines) + "\n").encode()
    d = tempfile.mkdtemp(prefix="gaftools-vf-self")
    try:
        for layout in ("standard", "tiny", "line_start"):
            p = os.path.join(d, layout + ".gz")
            bgzf.write_bgzf(p, data, rng=rng, layout=layout)
            with gzip.open(p, "rb") as f:
                assert f.read() == data, "stdlib gzip reads different bytes"
            bi = bgzf.BgzfIndex(p)
            assert bi.data == data
            rd = libcbgzf.BGZFile(p, "rb")
            i = 0
            while True:
                off = rd.tell()
                l = rd.readline()
                if not l:
                    break
                assert bi.line_at(off) == lines[i], f"virtual offset of line {i} ({layout}) does not resolve in the block parser"
                i += 1
            assert i == len(lines)
            rd.close()
        p = os.path.join(d, "pysam.gz")
        w = libcbgzf.BGZFile(p, "wb")
        w.write(data)
        w.close()
        assert bgzf.BgzfIndex(p).data == data
    finally:
        import shutil
        shutil.rmtree(d, ignore_errors=True)


def t_cigar():
    from vf.gen import reads as gr
    ok, msg, st = gr.replay("3=1X2I2=1D", "ACGTTTAC", "ACGAACG")
    assert ok and st == {"matches": 5, "block": 9, "cost": 4 + (6 + 4) + (6 + 2)}, (ok, msg, st)
    assert not gr.replay("4=", "ACGT", "ACGA")[0]
    assert not gr.replay("1X", "A", "A")[0]
    assert not gr.replay("3=", "ACGT", "ACG")[0]
    assert gr.gotoh("ACGT", "ACGT") == 0 and gr.gotoh("ACGT", "AGGT") == 4 and gr.gotoh("AAAA", "AAAATT") == 10
    rng = random.Random(3)
    for _ in range(200):
        ref = "".join(rng.choice("ACGT") for _ in range(rng.randint(1, 80)))
        seg, ops = gr.mutate(rng, ref)
        ok, msg, _ = gr.replay(gr.cigar_str(ops), seg, ref)
        assert ok, f"true edit script does not replay: {msg}"
        f = gr.fragment(rng, ops, p=0.6)
        ok, msg, st2 = gr.replay(gr.cigar_str(f), seg, ref)
        assert ok, f"fragmented script does not replay: {msg}"


def t_bcc_small():
    from vf.ref import bcc
    adj = {"a": {"b"}, "b": {"a", "c", "d"}, "c": {"b", "d"}, "d": {"b", "c", "e"}, "e": {"d"}}
    blks, art = bcc.blocks(adj)
    assert art == {"b", "d"} == bcc.artic_by_definition(adj)
    assert sorted(sorted(b) for b in blks) == [["a", "b"], ["b", "c", "d"], ["d", "e"]]
    ch = bcc.chain(adj)
    kinds = [t for t, _ in ch["elements"]]
    assert kinds == ["b", "s", "b", "s", "b"], kinds
    rng = random.Random(9)
    for _ in range(300):
        n = rng.randint(1, 9)
        adj = {i: set() for i in range(n)}
        for _e in range(rng.randint(0, 14)):
            a, b = rng.randrange(n), rng.randrange(n)
            if a != b:
                adj[a].add(b)
                adj[b].add(a)
        for comp in bcc.components(adj):
            sub = {v: adj[v] & comp for v in comp}
            _b, art = bcc.blocks(sub)
            assert art == bcc.artic_by_definition(sub)


def t_gfa_reader():
    from vf.ref import gfa as rg
    r = rg.read(os.path.join(DATA, "smallgraph.gfa"))
    assert len(r.segments) == 13 and len(r.links) == 19, (len(r.segments), len(r.links))
    pairs = r.step_pairs()
    assert (("s2", ">"), ("s3", ">")) in pairs and (("s3", "<"), ("s2", "<")) in pairs
    assert (("s2", "<"), ("s4", "<")) not in pairs and (("s4", "<"), ("s2", "<")) in pairs  # L s4 - s2 -
    exp = [l.strip() for l in open(os.path.join(DATA, "find_path-output.fasta")) if not l.startswith(">")]
    inp = [l.strip() for l in open(os.path.join(DATA, "find_path-input.txt")) if l.strip()]
    seqs = {k: v[0] for k, v in r.segments.items()}
    for p, e in zip(inp, exp):
        steps = rg.parse_path(p)
        got = rg.spell(steps, seqs) if rg.is_walk(steps, pairs) else ""
        assert got == e, f"reference spelling of {p} differs from the golden find_path output"


TESTS = [t_bcc_small, t_gfa_reader, t_chain_smallgraph, t_conversion_golden, t_bgzf, t_cigar]


def run():
    util.put_repo_on_path()
    failed = 0
    for t in TESTS:
        try:
            t()
            print(f"selftest {t.__name__}: ok")
        except Exception:  # noqa: BLE001
            failed += 1
            print(f"selftest {t.__name__}: FAILED\n{traceback.format_exc()}")
    return 1 if failed else 0
