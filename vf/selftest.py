"""Reference-model self-tests (run by setup_cmd and by `./check selftest`)."""
import sys


def main():
    from vf import selftests_impl
    return selftests_impl.run()


if __name__ == "__main__":
    sys.exit(main())
