"""BGZF writer with caller-chosen block boundaries, and an independent BGZF block parser
(virtual offset <-> uncompressed position), both from the SAM specification section 4.1."""

import struct
import zlib

EOF_BLOCK = bytes.fromhex("1f8b08040000000000ff0600424302001b0003000000000000000000")


def _block(data):
    comp = zlib.compressobj(6, zlib.DEFLATED, -15)
    cdata = comp.compress(data) + comp.flush()
    bsize = len(cdata) + 25  # total block size - 1
    if bsize > 0xFFFF:
        comp = zlib.compressobj(0, zlib.DEFLATED, -15)
        cdata = comp.compress(data) + comp.flush()
        bsize = len(cdata) + 25
    hdr = struct.pack("<4BI2BH2BHH", 0x1F, 0x8B, 8, 4, 0, 0, 0xFF, 6, 66, 67, 2, bsize)
    return hdr + cdata + struct.pack("<II", zlib.crc32(data) & 0xFFFFFFFF, len(data))


def write_bgzf(path, data, sizes=None, rng=None, layout="standard"):
    """Write `data` (bytes) as BGZF.  layout: 'standard' (65280-byte blocks), 'tiny' (random 1-1000
    byte blocks), 'line_start' (a block boundary exactly at every k-th line start), or explicit
    `sizes` list.  Returns the list of (compressed_offset, uncompressed_offset, length)."""
    blocks = []
    pos = 0
    cpos = 0
    out = bytearray()
    if sizes is None:
        sizes = []
        if layout in ("standard", "max64k"):
            # bgzip / htslib fill blocks with 65280 bytes; the format allows 65536 (htsjdk writers use it)
            blk = 65280
            if layout == "max64k" or (rng is not None and len(data) > 65536 and rng.random() < 0.5):
                blk = 65536
            n = len(data)
            while n > 0:
                sizes.append(min(blk, n))
                n -= sizes[-1]
        elif layout == "tiny":
            n = len(data)
            while n > 0:
                k = min(rng.choice([1, 2, 7, 31, 100, 333, 1000, rng.randint(1, 1000)]), n)
                sizes.append(k)
                n -= k
        elif layout == "line_start":
            step = rng.randint(1, 5)
            last = 0
            cnt = 0
            i = data.find(b"\n")
            while i != -1:
                cnt += 1
                if cnt % step == 0:
                    sizes.append(i + 1 - last)
                    last = i + 1
                i = data.find(b"\n", i + 1)
            if last < len(data):
                sizes.append(len(data) - last)
            fixed = []
            for s in sizes:  # a block holds at most 65280 bytes
                while s > 65280:
                    fixed.append(65280)
                    s -= 65280
                fixed.append(s)
            sizes = fixed
        else:
            raise ValueError(layout)
    for s in sizes:
        chunk = data[pos:pos + s]
        b = _block(chunk)
        blocks.append((cpos, pos, len(chunk)))
        out += b
        cpos += len(b)
        pos += s
    assert pos == len(data)
    out += EOF_BLOCK
    with open(path, "wb") as f:
        f.write(out)
    return blocks


class BgzfIndex:
    """Independent parser: block table of a BGZF file and the decompressed data."""

    def __init__(self, path):
        with open(path, "rb") as f:
            raw = f.read()
        self.blocks = []  # (coffset, uoffset, ulen)
        chunks = []
        cpos = 0
        upos = 0
        while cpos < len(raw):
            if raw[cpos:cpos + 4] != b"\x1f\x8b\x08\x04":
                raise ValueError(f"not a BGZF block at {cpos}")
            xlen = struct.unpack_from("<H", raw, cpos + 10)[0]
            extra = raw[cpos + 12:cpos + 12 + xlen]
            bsize = None
            i = 0
            while i + 4 <= len(extra):
                si1, si2, slen = extra[i], extra[i + 1], struct.unpack_from("<H", extra, i + 2)[0]
                if si1 == 66 and si2 == 67 and slen == 2:
                    bsize = struct.unpack_from("<H", extra, i + 4)[0] + 1
                i += 4 + slen
            if bsize is None:
                raise ValueError("BGZF block without BC field")
            cdata = raw[cpos + 12 + xlen:cpos + bsize - 8]
            data = zlib.decompress(cdata, -15)
            crc, isize = struct.unpack_from("<II", raw, cpos + bsize - 8)
            if isize != len(data) or (zlib.crc32(data) & 0xFFFFFFFF) != crc:
                raise ValueError("BGZF block checksum/size mismatch")
            self.blocks.append((cpos, upos, len(data)))
            chunks.append(data)
            cpos += bsize
            upos += len(data)
        self.data = b"".join(chunks)
        self._by_c = {c: (u, n) for c, u, n in self.blocks}

    def upos(self, voffset):
        """uncompressed position designated by a virtual offset, or None if it is not valid"""
        c, w = voffset >> 16, voffset & 0xFFFF
        if c not in self._by_c:
            return None
        u, n = self._by_c[c]
        if w > n:
            return None
        return u + w

    def line_at(self, voffset):
        p = self.upos(voffset)
        if p is None:
            return None
        e = self.data.find(b"\n", p)
        if e == -1:
            e = len(self.data)
        return self.data[p:e].decode()

    def data_blocks(self):
        return sum(1 for _c, _u, n in self.blocks if n > 0)
