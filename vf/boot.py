"""Bootstrap subprocess: run the real CLI in a fresh interpreter (own PYTHONHASHSEED, real process
boundary) under the same monitors.   python -B -m vf.boot <spec.json> <result.json>

spec: {"argv": [...], "prop": "C06" | null, "ctx": {...}}
result: {"outcome": {...}, "counts": {...}, "violations": [...], "stdout": "..."}
"""

import faulthandler
import importlib
import json
import os
import subprocess
import sys

from vf import util


def main(argv):
    faulthandler.enable()
    spec = json.load(open(argv[0]))
    from vf import monitor
    from vf.cli import run_cli
    if spec.get("prop"):
        P = importlib.import_module(f"vf.props.{spec['prop'].lower()}")
        if hasattr(P, "boot_setup"):
            P.boot_setup(spec)
    o = run_cli(spec["argv"])
    res = {"outcome": o.to_json(), "counts": dict(monitor.COUNTS), "violations": monitor.drain(),
           "stdout": o.stdout[-20000:], "tb": o.tb, "log": o.log[-30:], "hashseed": os.environ.get("PYTHONHASHSEED")}
    with open(argv[1], "w") as f:
        json.dump(res, f, default=str)


def run_boot(spec, workdir, hashseed, timeout=300, tag="boot"):
    """Launch a bootstrap subprocess; returns the result dict or {"outcome": {"kind": "boot_failed"}}."""
    sp = os.path.join(workdir, f"{tag}.spec.json")
    rp = os.path.join(workdir, f"{tag}.result.json")
    with open(sp, "w") as f:
        json.dump(spec, f)
    env = dict(os.environ)
    env["PYTHONHASHSEED"] = str(hashseed)
    env["PYTHONPATH"] = util.VERIF + os.pathsep + util.DEPS
    try:
        p = subprocess.run([util.PY, "-B", "-m", "vf.boot", sp, rp], env=env, cwd=workdir,
                           capture_output=True, text=True, timeout=timeout, start_new_session=True)
    except subprocess.TimeoutExpired:
        return {"outcome": {"kind": "boot_timeout"}, "violations": [], "counts": {}}
    if not os.path.exists(rp):
        return {"outcome": {"kind": "boot_failed", "message": (p.stdout + p.stderr)[-800:], "rc": p.returncode},
                "violations": [], "counts": {}}
    with open(rp) as f:
        return json.load(f)


if __name__ == "__main__":
    main(sys.argv[1:])
