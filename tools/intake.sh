#!/bin/bash
# tools/intake.sh <worktree-name under /tmp/seed> <seed-id> <property> "<needs>" : archive, check, remove the worktree
set -u
cd /verif
wt=/tmp/seed/$1
python3 tools/seeded.py add "$wt" "$2" "$3" "$4" 2>&1 | grep -v conda
python3 tools/seeded.py run "$2" 2>&1 | grep -v conda
git -C /repo worktree remove --force "$wt" 2>/dev/null || rm -rf "$wt"
