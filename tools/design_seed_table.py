#!/usr/bin/env python3
"""Regenerates DESIGN.md section 10.5 (seeded breaking changes) from seeded/*/meta.json."""
import glob, json, os
VERIF = os.path.dirname(os.path.dirname(os.path.abspath(__file__)))
rows = []
for d in sorted(glob.glob(os.path.join(VERIF, "seeded", "S*"))):
    m = json.load(open(os.path.join(d, "meta.json")))
    res = []
    for k, v in sorted(m.get("checks", {}).items()):
        if isinstance(v, dict) and "@seed" not in k:
            res.append(f"{k}: {'caught' if v['rc'] == 1 else 'not reported' if v['rc'] == 0 else 'inconclusive'} ({', '.join(v['kinds'][:3])})")
    seeds = [v["rc"] for k, v in m.get("checks", {}).items() if isinstance(v, dict) and "@seed" in k]
    extra = f"; other VERIF_SEEDs: {sum(1 for r in seeds if r == 1)}/{len(seeds)} caught" if seeds else ""
    rows.append((m["id"], m["property"], m["needs_to_manifest"], "; ".join(res) + extra))
out = ["\n### 10.5 Seeded breaking changes (written by sub-agents that saw only the property text)\n",
       "Eleven rounds of sub-agents (from round 2 on they were told the mechanisms of the earlier rounds and asked for different ones; rounds 8-11 were also told what the harness varies and asked for something it is likely to miss). Each change was",
       "confirmed in its scratch worktree (54 tests pass with it; its demonstration exits 1 with and 0 without it) and is archived as",
       "`seeded/<id>/{patch.diff, demo_break.py, meta.json}`. Checks are run against a scratch copy of `/repo` with the patch applied",
       "(`tools/seeded.py run [--seeds 1,2,3]`); two of them were also checked through `git -C /repo apply` / `checkout -- .`.",
       "Result column = latest result recorded in meta.json (quick tier; `@thorough` = the one case of the thorough tier that reaches it, run on its own).\n",
       "| id | property | needs, in order to manifest | quick-tier result |", "|----|----------|------------------------------|-------------------|"]
for r in rows:
    out.append(f"| {r[0]} | {r[1]} | {r[2]} | {r[3]} |")
out.append("""
Changes that were first *missed* and led to wider workloads or stronger oracles, after which they are reported:
S06 (pass-through records, with and without CIGAR, also in the quick tier of C16); S11 (several GAF records per read, adjacent and
interleaved, in C20); S17 (soft-masked / N bases in C07 - which exposed the genuine defect F15 in `rev_comp` through C14);
S24 / S35 / S40 / S43 / S44 (CRLF line ends and non-ASCII characters as a text-variant dimension of the sort, view, index and
compression workloads); S26 (SIGTERM and `sys.exit` as fault kinds in C13); S27 (multi-block `--bgzip` output in the quick tier of
C10); S28 (the documented default chromosome order in C06); S31 (CIGAR-less counted records in C19); S33 (single-segment chromosomes
in C07); S37 (queries interleaved on the same graph object in C15); S41 (blank-terminated Z values in non-final fields: the earlier
blanket exclusion of trailing blanks was narrowed to the last field of a line); S42 (read span and path span on opposite sides of the
60 000 threshold in C12); S45 (multi-member gzip graphs); S16 (records ending exactly on 64 KiB boundaries are now constructed, not
left to chance); S49 / S59 (monitors that depended on repository-internal helper names - `all_exited`, `compare_gaf` - are optional
now: a refactoring that removes them no longer turns the check inconclusive, the boundary oracle still decides); S54 (GAF records
that already carry ps/ht); S57 (last line without newline). Widening the contig-name alphabet for S62 exposed the genuine defect F16.

S32 is *not* reported by design: with conflicting duplicate TSV rows for one read the statement of C20 does not say which row applies,
and the check accepts any of the read's rows (documented lenient reading; which listing the tool used is recorded in the evidence as
`conflicting_rows:*`). Tightening this to "first listing wins" would raise an alarm on a tool that chose differently while still
satisfying the statement.
""")
p = os.path.join(VERIF, "DESIGN.md")
s = open(p).read()
i = s.find("\n### 10.5 Seeded breaking changes")
if i != -1:
    s = s[:i]
open(p, "w").write(s.rstrip() + "\n" + "\n".join(out))
print(len(rows), "seeds")
