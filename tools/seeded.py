#!/usr/bin/env python3
"""Confirm and archive a seeded (sub-agent written) breaking change, and run checks against it.

  tools/seeded.py add <worktree> <seed-id> <property> "<what it needs to manifest>"
        -> confirms: 54 tests pass with the change; demo_break.py exits 1 with and 0 without it;
           stores /verif/seeded/<seed-id>/{patch.diff, demo_break.py, meta.json}
  tools/seeded.py run [seed-id ...] [--tier quick|thorough] [--props C01,C02]
        -> for each stored seed: makes a scratch copy of /repo (outside /repo and /verif), applies
           patch.diff, runs ./check <prop> <tier> with VERIF_REPO=<copy>, records the result in
           meta.json, removes the copy
"""

import json
import os
import shutil
import subprocess
import sys
import tempfile

VERIF = os.path.dirname(os.path.dirname(os.path.abspath(__file__)))
PY = "/venv/bin/python"


def sh(cmd, cwd=None, timeout=1800, env=None):
    p = subprocess.run(cmd, cwd=cwd, capture_output=True, text=True, timeout=timeout, env=env)
    return p.returncode, p.stdout + p.stderr


def add(wt, sid, prop, needs):
    d = os.path.join(VERIF, "seeded", sid)
    os.makedirs(d, exist_ok=True)
    rc, diff = sh(["git", "-C", wt, "diff"])
    assert diff.strip(), "no diff in worktree"
    open(os.path.join(d, "patch.diff"), "w").write(diff)
    shutil.copy(os.path.join(wt, "demo_break.py"), os.path.join(d, "demo_break.py"))
    ran = []
    rc_t, out = sh([PY, "-m", "pytest", "-q", "-p", "no:cacheprovider"], cwd=wt)
    ran.append({"cmd": "pytest (with change)", "rc": rc_t, "tail": out.strip().split("\n")[-1]})
    rc_with, out = sh(["timeout", "-k", "5", "300", PY, "demo_break.py"], cwd=wt)
    ran.append({"cmd": "demo_break.py (with change)", "rc": rc_with, "tail": out.strip().split("\n")[-2:]})
    # (not git stash: the stash is shared between all worktrees of a repository)
    patch = os.path.join(d, "patch.diff")
    assert sh(["git", "apply", "-R", patch], cwd=wt)[0] == 0, "cannot revert the change"
    try:
        rc_without, out = sh(["timeout", "-k", "5", "300", PY, "demo_break.py"], cwd=wt)
    finally:
        assert sh(["git", "apply", patch], cwd=wt)[0] == 0, "cannot re-apply the change"
    ran.append({"cmd": "demo_break.py (without change)", "rc": rc_without, "tail": out.strip().split("\n")[-2:]})
    ok = rc_t == 0 and rc_with == 1 and rc_without == 0
    meta = {"id": sid, "property": prop, "needs_to_manifest": needs, "confirmed": ok, "confirmation": ran,
            "base_commit": sh(["git", "-C", wt, "rev-parse", "--short", "HEAD"])[1].strip(), "checks": {}}
    json.dump(meta, open(os.path.join(d, "meta.json"), "w"), indent=1)
    print(f"{sid}: confirmed={ok} tests rc={rc_t} demo with={rc_with} without={rc_without}")
    return ok


def run(sids, tier, props, seeds=("0",)):
    base = os.path.join(VERIF, "seeded")
    for sid in sorted(os.listdir(base)):
        if sids and sid not in sids:
            continue
        d = os.path.join(base, sid)
        meta = json.load(open(os.path.join(d, "meta.json")))
        scratch = tempfile.mkdtemp(prefix="gaftools-seed-")
        try:
            dst = os.path.join(scratch, "repo")
            shutil.copytree("/repo", dst, ignore=shutil.ignore_patterns(".git", "__pycache__", "*.egg-info"))
            rc, out = sh(["patch", "-p1", "-d", dst, "-i", os.path.join(d, "patch.diff")])
            if rc != 0:
                print(f"{sid}: patch does not apply to the current tree: {out[-200:]}")
                meta["checks"][f"apply@{tier}"] = "patch does not apply"
                continue
            for prop in (props or [meta["property"]]):
                for vseed in seeds:
                    env = dict(os.environ, VERIF_REPO=dst, VERIF_EVIDENCE_DIR=os.path.join(scratch, "ev"),
                               VERIF_REPLAY_DIR=os.path.join(scratch, "rp"), VERIF_SEED=str(vseed))
                    rc, out = sh([os.path.join(VERIF, "check"), prop, tier], env=env, timeout=7200)
                    kinds = sorted({l.split("kind=")[1].split(" ")[0] for l in out.split("\n") if "kind=" in l})
                    head = next((l for l in out.split("\n") if l.startswith("[" + prop)), "")
                    key = f"{prop}@{tier}" if str(vseed) == "0" else f"{prop}@{tier}@seed{vseed}"
                    meta["checks"][key] = {"rc": rc, "kinds": kinds[:8], "summary": head}
                    print(f"{sid}: VERIF_SEED={vseed} ./check {prop} {tier} -> rc={rc} {'CAUGHT' if rc == 1 else 'MISSED' if rc == 0 else 'INCONCLUSIVE'} {kinds[:5]}", flush=True)
        finally:
            shutil.rmtree(scratch, ignore_errors=True)
            json.dump(meta, open(os.path.join(d, "meta.json"), "w"), indent=1)


if __name__ == "__main__":
    a = sys.argv[1:]
    if a[0] == "add":
        add(a[1], a[2], a[3], a[4])
    else:
        tier, props, sids, seeds = "quick", None, [], ("0",)
        i = 1
        while i < len(a):
            if a[i] == "--tier":
                tier = a[i + 1]
                i += 2
            elif a[i] == "--seeds":
                seeds = tuple(a[i + 1].split(","))
                i += 2
            elif a[i] == "--props":
                props = a[i + 1].split(",")
                i += 2
            else:
                sids.append(a[i])
                i += 1
        run(sids, tier, props, seeds)
