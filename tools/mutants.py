#!/usr/bin/env python3
"""Sensitivity check of the machinery: apply each sanity mutant to a scratch copy of /repo (outside
/repo and /verif, deleted right after), confirm that the repository's own 54 tests still pass, and
that the quick tier of the named check(s) reports a violation (exit 1).

usage: tools/mutants.py [-j N] [name-substring ...]       results -> tools/mutants_result.json
"""

import concurrent.futures as cf
import json
import os
import shutil
import subprocess
import sys
import tempfile

VERIF = os.path.dirname(os.path.dirname(os.path.abspath(__file__)))
REPO = "/repo"
PY = "/venv/bin/python"

M = []


def mut(name, file, old, new, props, count=1):
    M.append({"name": name, "file": file, "old": old, "new": new, "props": props, "count": count})


def revert(name, commit, props):
    M.append({"name": name, "revert": commit, "props": props})


# ---- sanity mutants listed in DESIGN.md section 3 ------------------------------------------------
C = "gaftools/conversion.py"
mut("C01-merge-ignores-orientation", C, "(node1.contig_id != node2.contig_id) or (orient1 != orient2)", "(node1.contig_id != node2.contig_id)", ["C01"])
mut("C01-reverse-collapse-uses-path_start", C, "new_start = out_node[0][0].start + gaf_line.path_length - gaf_line.path_end", "new_start = out_node[0][0].start + gaf_line.path_start", ["C01", "C02"])
mut("C01-overlap-case2-le", C, "elif s < int(query_end) <= e:", "elif s <= int(query_end) <= e:", ["C01", "C02"])
mut("C01-reverse_cigar-identity", "gaftools/utils.py", "    return new_cigar\n", "    return cg\n", ["C01"])
mut("C01-case3-total-not-accumulated", C, "            if cases != -1:\n                nodes_tmp.append(i.id)\n                new_total += e - s", "            if cases != -1:\n                nodes_tmp.append(i.id)\n                new_total += (e - s) if cases != 3 else 0", ["C01", "C02"])
mut("C02-drop-last-record", C, "    for gaf_line in gaf_input.read_file():\n        yield to_unstable(gaf_line, reference)", "    prev = None\n    for gaf_line in gaf_input.read_file():\n        if prev is not None:\n            yield to_unstable(prev, reference)\n        prev = gaf_line", ["C02", "C01"])
mut("C02-reverse-new_start-off-by-one", C, "new_start = new_end - (gaf_line.path_end - gaf_line.path_start)", "new_start = new_end - (gaf_line.path_end - gaf_line.path_start) + (1 if new_total > 50 else 0)", ["C01", "C02"])
mut("C02-tags-sorted", C, "    # adding tags in the sequence it was found\n    for k in gaf_line.tags.keys():", "    # adding tags in the sequence it was found\n    for k in sorted(gaf_line.tags.keys()):", ["C02", "C16"])
mut("C02-swap-columns-10-11", C, "        new_start + gaf_line.path_end - gaf_line.path_start,\n        gaf_line.residue_matches,\n        gaf_line.alignment_block_length,", "        new_start + gaf_line.path_end - gaf_line.path_start,\n        gaf_line.alignment_block_length,\n        gaf_line.residue_matches,", ["C02"])
I = "gaftools/cli/index.py"
mut("C03-offset-after-readline", I, "        offset = gaf_file.tell()\n        mapping = gaf_file.readline()\n        if not mapping:\n            break", "        mapping = gaf_file.readline()\n        offset = gaf_file.tell()\n        if not mapping:\n            break", ["C03"])
mut("C03-index-first-node-only", I, 'alignment = list(re.split(">|<", val[5]))[1:]', 'alignment = list(re.split(">|<", val[5]))[1:2]', ["C03", "C04"])
mut("C03-convert_coord-drop-case3", I, "                cases = 3\n\n            if cases != -1:\n                unstable_coord.append(node.id)", "                cases = -1\n\n            if cases != -1:\n                unstable_coord.append(node.id)", ["C03"])
mut("C03-key-end-minus-one", I, 'int(nodes[a].tags["SO"][1]) + int(nodes[a].tags["LN"][1]),\n                    )\n                ].append(offset)', 'int(nodes[a].tags["SO"][1]) + int(nodes[a].tags["LN"][1]) - 1,\n                    )\n                ].append(offset)', ["C03"])
V = "gaftools/cli/view.py"
mut("C04-no-sort", V, "        offsets = sorted(offsets)", "        offsets = list(offsets)", ["C04"])
mut("C04-intersect", V, "                offsets.update(ind[ind_dict[nd]])", "                offsets = set(ind[ind_dict[nd]]) if not offsets else (offsets & set(ind[ind_dict[nd]]))", ["C04"])
mut("C04-format-prints-raw", V, "                    print(to_stable(line, gfa_nodes, ref_contig, contig_len), file=writer)", "                    print(line, file=writer)", ["C04"])
mut("C05-region-end-exclusive-start", V, "return [nd for nd in node_list if nd[2] <= q_e and q_s < nd[3]]", "return [nd for nd in node_list if nd[2] <= q_e and q_s < nd[3] - 1]", ["C05"])
mut("C05-first-node-only", V, "        result.extend(nd[0] for nd in node)", "        result.extend(nd[0] for nd in node[:1])", ["C05"])
mut("C05-wrong-contig", V, "node_list = list(filter(lambda x: (x[1] == c), list(index.keys())))", "node_list = list(filter(lambda x: (x[1] == contig[0]), list(index.keys())))", ["C05"])
O = "gaftools/cli/order_gfa.py"
mut("C06-no-reversal", O, "    if element_coordinates[0] > element_coordinates[-1]:\n        traversal.reverse()", "    if False:\n        traversal.reverse()", ["C06"])
mut("C06-NO-set-order", O, "for i, n in enumerate(sorted(bubbles[int(node.split(\"\\t\")[1])])):", "for i, n in enumerate(sorted(bubbles[int(node.split(\"\\t\")[1])], reverse=True)):", ["C06"])
mut("C06-bo-restart-per-chromosome", O, "    bo = bo_start\n    for node in traversal:", "    bo = 0\n    for node in traversal:", ["C06"])
mut("C06-scaffold-NO-1", O, "            node_order[node] = (bo, 0)", "            node_order[node] = (bo, 1)", ["C06", "C07"])
G = "gaftools/gfa.py"
mut("C07-write-plus-for-minus", G, 'edge = str(\n                                "\\t".join(["L", str(n1), "-", str(n[0]), "-", overlap] + tags)', 'edge = str(\n                                "\\t".join(["L", str(n1), "-", str(n[0]), "+", overlap] + tags)', ["C07"])
mut("C07-drop-L-tags", G, "                        if tags[0] == 0:\n                            tags = []\n                        if n[1] == 0:\n                            edge = str(\n                                \"\\t\".join([\"L\", str(n1), \"+\"", "                        if tags[0] == 0 or True:\n                            tags = []\n                        if n[1] == 0:\n                            edge = str(\n                                \"\\t\".join([\"L\", str(n1), \"+\"", ["C07"])
mut("C07-csv-colour-swapped", O, '                    color = "orange"\n                elif node_name in inside_nodes:\n                    color = "blue"', '                    color = "blue"\n                elif node_name in inside_nodes:\n                    color = "orange"', ["C07"])
S = "gaftools/cli/sort.py"
mut("C08-ignore-NO", S, "    if al1.NO < al2.NO:\n        return -1\n    if al1.NO > al2.NO:\n        return 1\n", "", ["C08"])
mut("C08-start-descending", S, "    if al1.start < al2.start:\n        return -1\n    if al1.start > al2.start:\n        return 1", "    if al1.start < al2.start:\n        return 1\n    if al1.start > al2.start:\n        return -1", ["C08"])
mut("C09-sn-first-node-only", S, "        if sn is None and sr_tag == 0:\n            sn = sn_tag", "        if sn is None and sr_tag == 0 and n == path[1]:\n            sn = sn_tag", ["C09"])
mut("C09-iv-counts-all-nodes", S, "        # Skipping the non-scaffold nodes\n        if no_tag != 0:\n            continue", "        # Skipping the non-scaffold nodes", ["C09", "C08"])
mut("C09-strip-trailing-field", S, '            line += "\\tbo:i:%d\\tsn:Z:%s\\tiv:i:%d\\n" % (alignment.BO, alignment.sn, alignment.inv)', '            line = "\\t".join(line.split("\\t")[:-1]) if line.count("\\t") > 14 else line\n            line += "\\tbo:i:%d\\tsn:Z:%s\\tiv:i:%d\\n" % (alignment.BO, alignment.sn, alignment.inv)', ["C09"])
mut("C10-tell-after-write", S, "                out_off = writer.tell()\n", "                write_to_file(line, writer)\n                out_off = writer.tell()\n                line = ''\n", ["C10"])
mut("C10-never-update-last", S, "                else:\n                    index_dict[alignment.sn][1] = out_off", "                else:\n                    pass", ["C10"])
R = "gaftools/cli/realign.py"
mut("C11-arrival-order", R, "                    p_queue.put(out_string_obj)\n                    # output.write(out_string_obj)\n\n            for p in processes:", "                    output.write(out_string_obj.seq)\n\n            for p in processes:", ["C11"])
mut("C11-start-next-group-before-join", R, "            for p in processes:\n                p.join()\n            queue_len = len(p_queue.queue)\n            for _ in range(queue_len):\n                output.write(p_queue.get().seq)\n            processes = []", "            queue_len = len(p_queue.queue)\n            for _ in range(queue_len - (1 if queue_len > 2 else 0)):\n                output.write(p_queue.get().seq)\n            processes = []", ["C11"])
mut("C12-swap-pattern-text", R, "            aligner = WavefrontAligner(ref)\n            res = aligner(query, clip_cigar=False)", "            aligner = WavefrontAligner(query)\n            res = aligner(ref, clip_cigar=False)", ["C12"])
mut("C12-count-X-as-match", R, "                    mismatch += op_len\n", "                    match += op_len\n", ["C12"])
mut("C12-passthrough-threshold-on-path", R, "if gaf_line.query_end - gaf_line.query_start > 60_000:", "if gaf_line.path_end - gaf_line.path_start > 150:", ["C12"])
M.append({"name": "C13-negative-exit-codes-ignored", "props": ["C13"], "multi": [
    (R, "        if p.exitcode != 0:\n            return False\n    return True", "        if p.exitcode is not None and p.exitcode > 0:\n            return False\n    return True"),
    (R, "        if p.exitcode is not None and p.exitcode != 0:", "        if p.exitcode is not None and p.exitcode > 0:")]})
M.append({"name": "C13-no-exit-on-failure", "props": ["C13"], "multi": [
    (R, '                            sys.exit(1)\n                        # all processes finished', '                            pass\n                        # all processes finished'),
    (R, "            for other in processes:\n                if other.is_alive():\n                    other.terminate()\n            sys.exit(1)", "            return")]})
mut("C14-swap-table-rows", G, '            (">", "<"): ("end", 1),\n            ("<", ">"): ("start", 0),', '            (">", "<"): ("start", 0),\n            ("<", ">"): ("end", 1),', ["C14", "C12"])
mut("C14-case1-inverted", G, '            ("<", "<"): ("start", 1),', '            ("<", "<"): ("start", 0),', ["C14"])
mut("C14-no-revcomp", G, "                seq.append(rev_comp(self.nodes[n[1:]].seq))", "                seq.append(self.nodes[n[1:]].seq)", ["C14", "C12"])
mut("C15-low-parent-not-updated", G, "                        low[parent] = min(low[parent], low[child])", "                        pass", ["C15"])
mut("C15-root-artic-ge1", G, "            if root_children > 1:", "            if root_children > 0:", ["C15"])
mut("C15-remove_edge-one-endpoint", G, "        if side2 == 0:\n            self.nodes[n2].remove_from_start(n1, side1, overlap)\n        else:\n            self.nodes[n2].remove_from_end(n1, side1, overlap)", "        if side2 == 0:\n            self.nodes[n2].remove_from_start(n1, side1, overlap)", ["C15"])
mut("C15-components-skip-last-neighbor", G, "            neighbors = self.nodes[start].neighbors()\n            for n in neighbors:", "            neighbors = self.nodes[start].neighbors()\n            for n in neighbors[: max(1, len(neighbors) - (1 if len(neighbors) > 3 else 0))]:", ["C15"])
A = "gaftools/gaf.py"
mut("C16-drop-last-field", A, "        for k in fields[12:]:", "        for k in fields[12:-1] if len(fields) > 15 else fields[12:]:", ["C16"])
mut("C16-Z-value-stripped", A, "            pattern, val = m.groups()", "            pattern, val = m.groups()\n            val = val.strip()", ["C16"])
mut("C17-index-offset-by-len", I, "        offset = gaf_file.tell()\n        mapping = gaf_file.readline()", "        offset = offset + len(mapping) if offset else gaf_file.tell()\n        mapping = gaf_file.readline()", ["C17", "C03"])
mut("C17-graph-open-regardless-of-suffix", G, '        if gfa_file_path.endswith(".gz"):\n            opened_file = gzip.open(gfa_file_path, "rt")', '        if gfa_file_path.endswith(".gzz"):\n            opened_file = gzip.open(gfa_file_path, "rt")', ["C17"])
mut("C18-advance-bo-on-skip", O, "            # a skipped chromosome does not use up any BO values\n            bo = next_bo", "            bo = next_bo\n        else:\n            bo += 1", ["C18"])
ST = "gaftools/cli/stat.py"
mut("C19-reads-over-all-records", ST, "        if not (mapping.is_primary) or (mapping.mapping_quality <= 0):\n            total_secondary += 1\n            continue", "        if mapping.query_name not in reads and False:\n            pass\n        if not (mapping.is_primary) or (mapping.mapping_quality < 0):\n            total_secondary += 1\n            continue", ["C19"])
mut("C19-identity-from-last", ST, "            if reads[mapping.query_name].highest_seq_identity < seq_identity:", "            if True:", ["C19"])
P = "gaftools/cli/phase.py"
mut("C19-tp-test-never-matches", A, 'if pattern == "tp:A:" and val not in ("P", "p"):', 'if pattern == "tp:A" and val not in ("P", "p"):', ["C19"])
mut("C07-tag-name-two-letters-only", "gaftools/utils.py", 'tag_regex = r"^[A-Za-z][A-Za-z0-9][:][AifZHB][:][ !-~]*$"', 'tag_regex = r"^[A-Za-z][A-Za-z][:][AifZHB][:][ !-~]*$"', ["C07"])
mut("C14-revcomp-upper-case-only", "gaftools/utils.py", 'complement = str.maketrans("ACGTacgt", "TGCAtgca")', 'complement = str.maketrans("ACGT", "TGCA")', ["C14"])
mut("C20-ps-ht-swapped", P, '                "\\tps:Z:%s-%s\\tht:Z:%s"', '                "\\tht:Z:%s-%s\\tps:Z:%s"', ["C20"])
mut("C20-first-record-only-tags", P, "        for k in gaf_line.tags.keys():", "        for k in (gaf_line.tags.keys() if line_count == 1 else []):", ["C20"])

# ---- every repair reverted must be reported again --------------------------------------------------
for commit, props in [("23642dd", ["C03"]), ("b1211b3", ["C04"]), ("48464d7", ["C05"]), ("ba66df1", ["C08"]), ("e0e670e", ["C10"]),
                      ("05d0a16", ["C06"]), ("3fdf3c7", ["C06"]), ("02ad794", ["C18"]), ("29612b7", ["C07"]),
                      ("d109679", ["C16"]), ("f7ef67e", ["C13"]), ("10c0c3c", ["C11"]), ("e6aeb83", ["C20"])]:
    revert(f"revert-fix-{commit}", commit, props)


def run_one(m):
    scratch = tempfile.mkdtemp(prefix="gaftools-mut-")
    res = {"name": m["name"], "props": {}, "tests": None}
    try:
        dst = os.path.join(scratch, "repo")
        shutil.copytree(REPO, dst, ignore=shutil.ignore_patterns(".git", "__pycache__", "*.egg-info", ".pytest_cache"))
        if "revert" in m:
            d = subprocess.run(["git", "-C", REPO, "diff", m["revert"] + "^", m["revert"]], capture_output=True, text=True).stdout
            p = subprocess.run(["patch", "-R", "-p1", "-d", dst], input=d, capture_output=True, text=True)
            if p.returncode != 0:
                res["error"] = "revert does not apply: " + p.stdout[-300:]
                return res
        elif "multi" in m:
            for f, old, new in m["multi"]:
                path = os.path.join(dst, f)
                s = open(path).read()
                if old not in s:
                    res["error"] = "pattern not found: " + old[:40]
                    return res
                open(path, "w").write(s.replace(old, new, 1))
        else:
            path = os.path.join(dst, m["file"])
            s = open(path).read()
            if m["old"] not in s:
                res["error"] = "pattern not found"
                return res
            s = s.replace(m["old"], m["new"], m["count"])
            open(path, "w").write(s)
        t = subprocess.run([PY, "-m", "pytest", "-q", "-x", "-p", "no:cacheprovider"], cwd=dst, capture_output=True, text=True, timeout=600)
        res["tests"] = "pass" if t.returncode == 0 else "FAIL: " + t.stdout.strip().split("\n")[-1][:200]
        for prop in m["props"]:
            env = dict(os.environ, VERIF_REPO=dst, VERIF_EVIDENCE_DIR=os.path.join(scratch, "ev"), VERIF_REPLAY_DIR=os.path.join(scratch, "rp"))
            c = subprocess.run([os.path.join(VERIF, "check"), prop, "quick"], env=env, capture_output=True, text=True, timeout=1800)
            kinds = sorted({l.split("kind=")[1].split(" ")[0] for l in c.stdout.split("\n") if "kind=" in l})
            res["props"][prop] = {"rc": c.returncode, "kinds": kinds[:6]}
    except Exception as e:  # noqa: BLE001
        res["error"] = repr(e)
    finally:
        shutil.rmtree(scratch, ignore_errors=True)
    return res


def main(argv):
    jobs = 4
    if argv and argv[0] == "-j":
        jobs = int(argv[1])
        argv = argv[2:]
    sel = [m for m in M if not argv or any(a in m["name"] for a in argv)]
    out = []
    with cf.ThreadPoolExecutor(max_workers=jobs) as ex:
        for r in ex.map(run_one, sel):
            caught = [p for p, v in r["props"].items() if v["rc"] == 1]
            status = "CAUGHT" if caught else ("ERROR " + r.get("error", "") if "error" in r else "MISSED")
            print(f"{status:7s} {r['name']:48s} tests={r['tests']} " + " ".join(f"{p}:rc{v['rc']}{v['kinds'][:3]}" for p, v in r["props"].items()), flush=True)
            out.append(r)
    prev = {}
    rp = os.path.join(VERIF, "tools", "mutants_result.json")
    if os.path.exists(rp):
        prev = {r["name"]: r for r in json.load(open(rp))}
    for r in out:
        prev[r["name"]] = r
    json.dump(sorted(prev.values(), key=lambda r: r["name"]), open(rp, "w"), indent=1)


if __name__ == "__main__":
    main(sys.argv[1:])
