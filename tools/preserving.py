#!/usr/bin/env python3
"""Behaviour-preserving refactorings (written by sub-agents that were asked NOT to change behaviour):
the checks must stay silent on them (exit 0, or KNOWN-FINDING lines only).

  tools/preserving.py add <worktree> <id> "<what was restructured>"
        -> runs the 54 tests in the worktree, stores /verif/preserving/<id>/{patch.diff, meta.json}
  tools/preserving.py run [id ...] [--props C01,C02] [--seeds 0,1]
        -> for each stored refactoring: scratch copy of /repo (outside /repo and /verif) + patch,
           every quick check with VERIF_REPO=<copy>; the result per check goes to meta.json.
           rc 1 on such a tree is either a false alarm of the machinery or an accidental behaviour
           change in the refactoring - read the witness before deciding which.
"""

import json
import os
import shutil
import subprocess
import sys
import tempfile

VERIF = os.path.dirname(os.path.dirname(os.path.abspath(__file__)))
PY = "/venv/bin/python"
ALL = [f"C{i:02d}" for i in range(1, 21)]


def sh(cmd, cwd=None, timeout=3600, env=None):
    p = subprocess.run(cmd, cwd=cwd, capture_output=True, text=True, timeout=timeout, env=env)
    return p.returncode, p.stdout + p.stderr


def add(wt, pid, summary):
    d = os.path.join(VERIF, "preserving", pid)
    os.makedirs(d, exist_ok=True)
    _rc, diff = sh(["git", "-C", wt, "diff"])
    assert diff.strip(), "no diff in worktree"
    open(os.path.join(d, "patch.diff"), "w").write(diff)
    rc_t, out = sh([PY, "-m", "pytest", "-q", "-p", "no:cacheprovider"], cwd=wt)
    _rc, stat = sh(["git", "-C", wt, "diff", "--stat"])
    meta = {"id": pid, "summary": summary, "tests_rc": rc_t, "tests_tail": out.strip().split("\n")[-1],
            "diffstat": stat.strip().split("\n")[-1].strip(),
            "base_commit": sh(["git", "-C", wt, "rev-parse", "--short", "HEAD"])[1].strip(), "checks": {}}
    json.dump(meta, open(os.path.join(d, "meta.json"), "w"), indent=1)
    print(f"{pid}: tests rc={rc_t} {meta['diffstat']}")


def run(ids, props, seeds):
    base = os.path.join(VERIF, "preserving")
    for pid in sorted(os.listdir(base)):
        if ids and pid not in ids:
            continue
        d = os.path.join(base, pid)
        meta = json.load(open(os.path.join(d, "meta.json")))
        scratch = tempfile.mkdtemp(prefix="gaftools-keep-")
        try:
            dst = os.path.join(scratch, "repo")
            shutil.copytree("/repo", dst, ignore=shutil.ignore_patterns(".git", "__pycache__", "*.egg-info"))
            rc, out = sh(["patch", "-p1", "-d", dst, "-i", os.path.join(d, "patch.diff")])
            if rc != 0:
                print(f"{pid}: patch does not apply: {out[-200:]}")
                continue
            for prop in props:
                for seed in seeds:
                    env = dict(os.environ, VERIF_REPO=dst, VERIF_EVIDENCE_DIR=os.path.join(scratch, "ev"),
                               VERIF_REPLAY_DIR=os.path.join(scratch, "rp"), VERIF_SEED=str(seed))
                    rc, out = sh([os.path.join(VERIF, "check"), prop, "quick"], env=env, timeout=7200)
                    kinds = sorted({l.split("kind=")[1].split(" ")[0] for l in out.split("\n") if "kind=" in l})
                    inc = [l[:200] for l in out.split("\n") if l.startswith("INCONCLUSIVE")][:2]
                    missing = sorted({l.split("hook_missing:")[1].split("=")[0].split(",")[0] for l in out.split("\n") if "hook_missing:" in l})
                    meta["checks"][f"{prop}@seed{seed}"] = {"rc": rc, "kinds": kinds[:8], "inconclusive": inc, "hooks_missing": missing}
                    tag = "silent" if rc == 0 else ("ALARM" if rc == 1 else "INCONCLUSIVE")
                    if rc != 0 or missing:
                        print(f"{pid}: {prop} seed {seed} -> rc={rc} {tag} {kinds[:5]} {inc[:1]} hooks_missing={missing}", flush=True)
            print(f"{pid}: done, {sum(1 for v in meta['checks'].values() if v['rc'] == 0)}/{len(meta['checks'])} silent", flush=True)
        finally:
            shutil.rmtree(scratch, ignore_errors=True)
            json.dump(meta, open(os.path.join(d, "meta.json"), "w"), indent=1)


if __name__ == "__main__":
    a = sys.argv[1:]
    if a[0] == "add":
        add(a[1], a[2], a[3])
    else:
        ids, props, seeds = [], ALL, ["0"]
        i = 1
        while i < len(a):
            if a[i] == "--props":
                props = a[i + 1].split(",")
                i += 2
            elif a[i] == "--seeds":
                seeds = a[i + 1].split(",")
                i += 2
            else:
                ids.append(a[i])
                i += 1
        run(ids, props, seeds)
