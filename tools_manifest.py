#!/usr/bin/env python3
"""Regenerates MANIFEST.json from the property modules present in vf/props (single source of truth)."""
import json, os, re, sys
HERE = os.path.dirname(os.path.abspath(__file__))
sys.path.insert(0, HERE)
META = json.load(open(os.path.join(HERE, "manifest_meta.json")))
props = [json.loads(l) for l in open(os.path.join(HERE, "properties.jsonl"))]
checks, na = [], []
for p in props:
    pid = p["id"]
    m = META["checks"].get(pid)
    if m and os.path.exists(os.path.join(HERE, "vf", "props", pid.lower() + ".py")):
        checks.append({
            "property_id": pid,
            "quick_cmd": f"./check {pid} quick",
            "thorough_cmd": f"./check {pid} thorough",
            "evidence_file": f"/verif/evidence/{pid}.json",
            "replay_cmd_template": "./check replay {path}",
            "engine": "vf",
            "level_claimed": {"category": m.get("category", "exploration"), "text": m["text"],
                              "design_ref": m.get("design_ref", f"DESIGN.md section 3, {pid}")},
            "level_note": m["note"],
            "technique": m["technique"],
        })
    else:
        na.append({"property_id": pid, "reason": META["not_applicable"].get(pid, "check not built yet in this framework; no claim is made")})
man = {
    "version": 1,
    "setup_cmd": "./check setup",
    "hooks": META["hooks"],
    "engines": [{"name": "vf", "path": "/verif/vf", "serves_properties": [c["property_id"] for c in checks],
                 "kind_free_text": "runtime monitoring: icontract contracts + sys.monitoring probes on the real code, boundary oracles against independent reference models, seeded/hostile workloads, process tracing with delay/fault injection for realign"}],
    "checks": checks,
    "notes": META["notes"],
    "not_applicable": na,
}
json.dump(man, open(os.path.join(HERE, "MANIFEST.json"), "w"), indent=1)
print(f"MANIFEST.json: {len(checks)} checks, {len(na)} not claimed")
