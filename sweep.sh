#!/bin/bash
# ./sweep.sh <tier> [seed...]   runs every check, prints one line per check (VERIF_SWEEP_ORDER="19 05 ...": these checks, in this order)
tier=${1:-quick}; shift
seeds=${@:-0}
for s in $seeds; do
for i in ${VERIF_SWEEP_ORDER:-01 02 03 04 05 06 07 08 09 10 11 12 13 14 15 16 17 18 19 20}; do
  out=$(VERIF_SEED=$s timeout -k 10 7200 ./check C$i $tier 2>&1); rc=$?
  echo "seed=$s C$i rc=$rc $(echo "$out" | grep -m1 '^\[C')"
  echo "$out" | grep -E '^(VIOLATION|INCONCLUSIVE|KNOWN-FINDING)' | head -5 | cut -c1-300
done; done
